package muxsim

import (
	"sync"

	"verif/simkit"
)

// monitor is an independent reference for the multiplexer wire protocol: it
// parses every byte each side sends and checks the sender-side rules whose
// violation makes a conforming receiver tear the connection down.
type monitor struct {
	s       *simkit.Sim
	mu      sync.Mutex
	parsers map[string]*parser
	streams map[uint64]*mstream
	last    map[string]uint64
	frames  int
}

type mstream struct {
	opener     string
	accepted   bool
	credit     map[string]uint64 // bytes a side may still send
	initial    map[string]uint64 // the window a side was granted when the stream was established
	closeWrite map[string]bool
	close      map[string]bool
}

func newMonitor(s *simkit.Sim) *monitor {
	m := &monitor{s: s, parsers: map[string]*parser{}, streams: map[uint64]*mstream{}, last: map[string]uint64{}}
	for _, side := range []string{"A", "B"} {
		side := side
		m.parsers[side] = newParser(func(f frame) { m.check(side, f) })
	}
	return m
}

func (m *monitor) sent(side string, p []byte) {
	m.mu.Lock()
	defer m.mu.Unlock()
	m.parsers[side].feed(p)
}

func (m *monitor) credit(side string, sid uint64) (uint64, bool) {
	m.mu.Lock()
	defer m.mu.Unlock()
	st := m.streams[sid]
	if st == nil || !st.accepted || st.close["A"] || st.close["B"] {
		return 0, false
	}
	return st.credit[side], true
}

// window reports the send window a side currently holds on a stream and the
// one it was granted at establishment (known only for established streams that
// neither side has closed).
func (m *monitor) window(side string, sid uint64) (credit, initial uint64, known bool) {
	m.mu.Lock()
	defer m.mu.Unlock()
	st := m.streams[sid]
	if st == nil || !st.accepted || st.close["A"] || st.close["B"] {
		return 0, 0, false
	}
	return st.credit[side], st.initial[side], true
}

func (m *monitor) flag(class, side string, f frame, why string) {
	m.s.Violate("C24", "wire-monitor", class, "side %s sent %q: %s", side, f.String(), why)
}

func (m *monitor) check(side string, f frame) {
	m.frames++
	m.s.Count("probe.frames."+kindName(f.kind), 1)
	peer := "B"
	if side == "B" {
		peer = "A"
	}
	if f.kind > kClose {
		m.flag("unknown-kind", side, f, "unknown message kind")
		return
	}
	if f.kind == kHeartbeat {
		return
	}
	if f.id == 0 {
		m.flag("zero-stream-id", side, f, "stream identifier 0")
		return
	}
	// Side A is the odd multiplexer, side B the even one.
	ownID := (f.id%2 == 1) == (side == "A")
	st := m.streams[f.id]
	switch f.kind {
	case kOpen:
		if !ownID {
			m.flag("open-wrong-parity", side, f, "stream identifier belongs to the peer")
			return
		}
		if f.id <= m.last[side] {
			m.flag("open-not-monotonic", side, f, "stream identifiers must increase")
			return
		}
		m.last[side] = f.id
		m.streams[f.id] = &mstream{opener: side, credit: map[string]uint64{peer: f.value}, initial: map[string]uint64{peer: f.value}, closeWrite: map[string]bool{}, close: map[string]bool{}}
		return
	}
	if st == nil {
		m.flag("unopened-stream", side, f, "message for a stream that was never opened")
		return
	}
	if st.close[side] {
		m.flag("message-after-close", side, f, "the sender already closed this stream")
		return
	}
	switch f.kind {
	case kAccept:
		if st.opener == side {
			m.flag("accept-own-stream", side, f, "a side cannot accept its own stream")
		} else if st.accepted {
			m.flag("accept-twice", side, f, "stream accepted twice")
		}
		st.accepted = true
		st.credit[peer] = f.value
		st.initial[peer] = f.value
	case kData:
		if f.length == 0 {
			m.flag("zero-length-data", side, f, "zero-length data message")
		}
		if !st.accepted {
			m.flag("data-before-accept", side, f, "data on a stream that is not established")
		}
		if st.closeWrite[side] {
			m.flag("data-after-closewrite", side, f, "the sender already half-closed this stream")
		}
		if uint64(f.length) > st.credit[side] {
			m.flag("window-exceeded", side, f, "data exceeds the window the peer advertised")
			st.credit[side] = 0
		} else {
			st.credit[side] -= uint64(f.length)
		}
	case kIncrement:
		if f.value == 0 {
			m.flag("zero-window-increment", side, f, "zero-valued window increment")
		}
		if st.opener != side && !st.accepted {
			m.flag("increment-before-accept", side, f, "window increment before accepting the stream")
		}
		st.credit[peer] += f.value
	case kCloseWrite:
		if st.closeWrite[side] {
			m.flag("closewrite-twice", side, f, "stream half-closed twice")
		}
		if st.opener != side && !st.accepted {
			m.flag("closewrite-before-accept", side, f, "half-close before accepting the stream")
		}
		st.closeWrite[side] = true
	case kClose:
		st.close[side] = true
	}
}

func kindName(k int) string {
	if k >= 0 && k < len(kindNames) {
		return kindNames[k]
	}
	return "unknown"
}
