#!/bin/sh
# usage: collect_seed.sh <ID> <name>   (copies patch, notes and demo files from /tmp/wt-<ID> to seeded/<name>)
id=$1; name=$2; wt=/tmp/wt-$id; d=/verif/seeded/$name
mkdir -p $d/demo
cp $wt/patch.diff $d/patch.diff
cp $wt/NOTES.md $d/NOTES.md 2>/dev/null
# new (untracked) files are the demonstration
(cd $wt && git status --porcelain | grep '^??' | awk '{print $2}' | grep -v '^patch.diff$' | grep -v '^NOTES.md$') | while read f; do
  mkdir -p $d/demo/$(dirname $f); cp -r $wt/$f $d/demo/$f
done
ls -R $d | head -20
