package main

import (
	"fmt"
	"os"
	"path/filepath"
	"sort"

	"verif/simkit"
)

var notApplicable = map[string]string{
	"C07": "Diff/Apply/Copy/filter/Count are pure in-memory tree functions: no schedule, clock, peer, stream or fault influences the result, so simulation would only be input generation in disguise.",
	"C14": "Ignore matching is a pure function of (pattern list, path, is-directory); deciding it needs a reference matcher over generated inputs, not a simulator. The no-traversal-below-ignored-directories clause is observed as a probe in syncsim only.",
	"C15": "Pure function whose oracle is Docker's own matcher; the only offline copy is the vendored code under test. No schedule, time or fault dimension.",
	"C36": "Argument-vector construction and URL validation are pure functions of the URL.",
	"C37": "Configuration merge/validation is a pure function over a finite product of field values (bounded enumeration, not simulation).",
	"C38": "Parse/format round trip is a pure function of the string.",
	"C39": "Identifier encoding/validation is a pure function of 32 random bytes.",
	"C40": "Selection, sorting and truncation are pure functions of the session set; the manager lock around them has no behaviour to interleave.",
	"C45": "Single-threaded container without I/O, time or concurrency.",
	"C46": "Lookup order over two directories and byte-exact extraction: configuration enumeration without faults, time or concurrency.",
}

// pending lists properties the design claims but whose engine is not built
// yet; they are reported under not_applicable with that reason until then.
var pendingReason = "claimed by DESIGN.md but its simulation engine is not built yet in this tree; not decided"

func writeManifest(root string) {
	type check struct {
		PropertyID   string         `json:"property_id"`
		QuickCmd     string         `json:"quick_cmd"`
		ThoroughCmd  string         `json:"thorough_cmd"`
		EvidenceFile string         `json:"evidence_file"`
		ReplayCmd    string         `json:"replay_cmd_template"`
		Engine       string         `json:"engine"`
		Level        map[string]any `json:"level_claimed"`
		LevelNote    string         `json:"level_note"`
		Technique    string         `json:"technique"`
	}
	var ids []string
	for id := range properties {
		ids = append(ids, id)
	}
	sort.Strings(ids)
	engines := map[string][]string{}
	var checks []check
	for _, id := range ids {
		sp := properties[id]
		engines[sp.Engine] = append(engines[sp.Engine], id)
		note := "Trusted: Go runtime and testing/synctest, Linux tmpfs semantics, the harness oracles. Sampled: seeds, schedules, fault positions."
		if len(sp.Assumptions) > 0 {
			note = sp.Assumptions[0] + "; trusted: Go runtime, testing/synctest, tmpfs, the harness oracles."
		}
		checks = append(checks, check{
			PropertyID:   id,
			QuickCmd:     "./bin/run-check " + id + " --tier quick",
			ThoroughCmd:  "./bin/run-check " + id + " --tier thorough",
			EvidenceFile: "evidence/" + id + ".json",
			ReplayCmd:    "./bin/run-check " + id + " --replay {path}",
			Engine:       sp.Engine,
			Level:        map[string]any{"category": sp.Level, "text": sp.LevelText(), "design_ref": "DESIGN.md §6 " + id},
			LevelNote:    note,
			Technique:    sp.TechniqueText(),
		})
	}
	type na struct {
		PropertyID string `json:"property_id"`
		Reason     string `json:"reason"`
	}
	var nas []na
	for i := 1; i <= 47; i++ {
		id := fmt.Sprintf("C%02d", i)
		if _, ok := properties[id]; ok {
			continue
		}
		if r, ok := notApplicable[id]; ok {
			nas = append(nas, na{id, r})
		} else {
			nas = append(nas, na{id, pendingReason})
		}
	}
	type engine struct {
		Name   string   `json:"name"`
		Path   string   `json:"path"`
		Serves []string `json:"serves_properties"`
		Kind   string   `json:"kind_free_text"`
	}
	var engs []engine
	var names []string
	for n := range engines {
		names = append(names, n)
	}
	sort.Strings(names)
	for _, n := range names {
		engs = append(engs, engine{n, "engines/" + n, engines[n], engineKinds[n]})
	}
	m := map[string]any{
		"version":   1,
		"setup_cmd": "./setup.sh",
		"hooks": map[string]any{
			"guard":            "verif",
			"enable":           "go1.26.8 test -c -tags 'verif verifruntime' -overlay .build/overlay/overlay.json ./engines/<engine> (module verif, replace github.com/mutagen-io/mutagen => /repo); the overlay, written by cmd/check at build time, holds (a) copies of five Go runtime files with a seeded select order and seeded map iteration and (b) copies of pkg/state, pkg/prompting and pkg/filesystem/locking of the current tree with automatically inserted verif.Yield calls; neither the toolchain nor /repo is modified; GOFLAGS=-mod=mod GOPROXY=off GOSUMDB=off GOTOOLCHAIN=local",
			"baseline_off_cmd": "cd /repo && go test -mod=mod -json -vet=off -count=1 -timeout 25m ./...",
			"source_commits":   hookCommits,
			"add_only":         true,
		},
		"engines":        engs,
		"checks":         checks,
		"not_applicable": nas,
		"notes":          "Deterministic simulation with fault injection. Every check: ./bin/run-check <id> rebuilds bin/check and the engine test binary from /repo's working tree (tag verif), runs 16 single-threaded seeded worker processes, minimises and replays each finding in a fresh process, applies known_findings.json, rewrites evidence/<id>.json. Exit 0 held / 1 VIOLATION / 2 machinery trouble.",
	}
	if err := simkit.WriteJSON(filepath.Join(root, "MANIFEST.json"), m); err != nil {
		fmt.Println(err)
		os.Exit(2)
	}
}

var hookCommits = []string{"a713816", "3772002", "7d61760", "d33e9eb", "d4ec52f"}

var engineKinds = map[string]string{
	"wiresim": "byte streams and transports under fragmentation, short I/O and injected failure (rsync, framing, handshakes, logging, stream writers)",
	"muxsim":  "two real multiplexers over a simulated carrier inside a synctest bubble with a seeded gate scheduler",
	"primsim": "concurrency primitives (tracker, coalescer, prompting) under seeded yields and a fake clock",
	"syncsim": "real synchronization manager/controller/endpoints on tmpfs roots or model endpoints inside a synctest bubble with syscall-level gates and fault injection",
	"fwdsim":  "real forwarding manager/controller over simulated listeners, dialers and connections",
	"procsim": "real OS processes parked and released by the seeded simulator (daemon lock, atomic writes)",
}

func (sp propSpec) LevelText() string {
	if sp.Text != "" {
		return sp.Text
	}
	if sp.Level == "fault_enumeration" {
		return "Seeded simulated scenarios in which every fault position of the stated kind is enumerated per scenario; the scenarios themselves are sampled. Evidence, not proof."
	}
	return "Seeded search over simulated schedules, workloads and fault sequences with online invariants and history checks; failures are minimised and replayed. Evidence, not proof."
}

func (sp propSpec) TechniqueText() string {
	if sp.Technique != "" {
		return sp.Technique
	}
	return "deterministic simulation with fault injection (seeded schedules + fault plans, replayable)"
}
