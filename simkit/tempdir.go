package simkit

import (
	"crypto/rand"
	"encoding/binary"
	"fmt"
	"os"
	"path/filepath"
)

// MkdirTemp is os.MkdirTemp with a suffix of fixed width. The standard one
// appends a random number printed in decimal, i.e. of varying length; scratch
// paths end up inside protocol messages and saved files, whose sizes (bytes on
// a simulated link, pages on a small device) would then differ between two
// executions of the same seed.
func MkdirTemp(parent, prefix string) (string, error) {
	var err error
	for try := 0; try < 100; try++ {
		var b [8]byte
		rand.Read(b[:])
		name := filepath.Join(parent, fmt.Sprintf("%s%010d", prefix, binary.LittleEndian.Uint64(b[:])%10000000000))
		if err = os.Mkdir(name, 0o700); err == nil {
			return name, nil
		}
		if !os.IsExist(err) {
			return "", err
		}
	}
	return "", err
}
