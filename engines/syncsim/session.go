package syncsim

import (
	"context"
	"fmt"
	"os"
	"path/filepath"
	"sort"
	"strings"
	"sync"
	"syscall"
	"testing"
	"time"

	"github.com/mutagen-io/mutagen/pkg/filesystem"
	"github.com/mutagen-io/mutagen/pkg/selection"
	"github.com/mutagen-io/mutagen/pkg/synchronization"
	"github.com/mutagen-io/mutagen/pkg/synchronization/core"
	urlpkg "github.com/mutagen-io/mutagen/pkg/url"
	"github.com/mutagen-io/mutagen/pkg/verif"

	"verif/simkit"
)

var modes = []core.SynchronizationMode{
	core.SynchronizationMode_SynchronizationModeTwoWaySafe,
	core.SynchronizationMode_SynchronizationModeTwoWayResolved,
	core.SynchronizationMode_SynchronizationModeOneWaySafe,
	core.SynchronizationMode_SynchronizationModeOneWayReplica,
}

var pathVocabulary = []string{"a", "b", "c", "a/a", "a/b", "b/a", "b/c", "a/b/c", "a/b/d", "a/b/e", "a/a/a", "c/b", "d"}

// genEdit draws one user edit.
func genEdit(r *simkit.Rand, p *simkit.Plan, actor string, id *int64, untracked bool) {
	side := simkit.Pick(r, []string{"alpha", "beta"})
	path := simkit.Pick(r, pathVocabulary)
	w := []int{40, 8, 6, 18, 8, 0, 0, 0, 7, 5}
	if untracked {
		w[5], w[6] = 10, 5
	}
	if p.Cfg["on_disk"] == 1 {
		w[7] = 14 // in-place edits (same inode, same size, new mtime)
	}
	if p.Scenario == "disk-exec" || p.Scenario == "model-exec" {
		w[4] = 24 // mode flips are the point
	}
	switch r.Weighted(w) {
	case 0:
		*id++
		p.Ops = append(p.Ops, simkit.Op{Actor: actor, Kind: "put", N: []int64{*id, int64(r.Intn(2))}, S: []string{side, path}})
	case 1:
		p.Ops = append(p.Ops, simkit.Op{Actor: actor, Kind: "mkdir", S: []string{side, path}})
	case 2:
		p.Ops = append(p.Ops, simkit.Op{Actor: actor, Kind: "link", S: []string{side, path, simkit.Pick(r, []string{"a", "../b", "c/b"})}})
	case 3:
		p.Ops = append(p.Ops, simkit.Op{Actor: actor, Kind: "del", S: []string{side, path}})
	case 4:
		p.Ops = append(p.Ops, simkit.Op{Actor: actor, Kind: "chmod", S: []string{side, path}})
	case 5:
		p.Ops = append(p.Ops, simkit.Op{Actor: actor, Kind: "untracked", S: []string{side, path}})
	case 6:
		p.Ops = append(p.Ops, simkit.Op{Actor: actor, Kind: "problem", S: []string{side, path}})
	case 7:
		*id++
		p.Ops = append(p.Ops, simkit.Op{Actor: actor, Kind: "edit", N: []int64{*id, int64(simkit.Pick(r, []int{0, 0, 1, 2}))}, S: []string{side, path}})
	case 8:
		p.Ops = append(p.Ops, simkit.Op{Actor: actor, Kind: "cp", S: []string{side, path, simkit.Pick(r, pathVocabulary)}})
	case 9:
		p.Ops = append(p.Ops, simkit.Op{Actor: actor, Kind: "mv", S: []string{side, path, simkit.Pick(r, pathVocabulary)}})
	}
}

func genModel(p *simkit.Plan, r *simkit.Rand, tier string) {
	c := p.Cfg
	c["mode"] = int64(r.Intn(4))
	switch p.Property {
	case "C01":
		c["mode"] = 0
	case "C02":
		c["mode"] = int64(r.Range(1, 3))
	case "C18":
		c["mode"] = int64(simkit.Pick(r, []int{0, 0, 1}))
		if p.Scenario == "disk-exec" {
			c["mode"] = int64(simkit.Pick(r, []int{0, 0, 1, 2}))
		}
	}
	c["sched_sticky"] = int64(simkit.Pick(r, []int{0, 40, 80}))
	untracked := p.Scenario == "model-untracked" || p.Scenario == "disk-untracked" || p.Scenario == "model-outcomes" || p.Scenario == "model-outcomes-enum"
	onDisk := strings.HasPrefix(p.Scenario, "disk")
	if onDisk {
		c["on_disk"] = 1
		// Which activities park at syscall-level gates in this run.
		c["fs_gates"] = int64(simkit.Pick(r, []int{0, 1, 2, 3, 3, 63, 31}))
		c["internal_staging"] = int64(r.Intn(2))
		if r.Chance(1, 5) {
			c["no_renameat2"] = 1
		}
		// Stalls: parked system calls stay parked while time passes (poll ticks
		// fire in the middle of scans, staging and transitions).
		c["sched_stall"] = int64(simkit.Pick(r, []int{0, 0, 8, 30, 80}))
	}
	var id int64 = 100
	devSides := []string{}
	if onDisk && p.Scenario != "disk-halt" && (r.Chance(1, 3) || p.Scenario == "disk-fulldev") {
		// One or both roots on their own small device (real EXDEV between the
		// staging area and the root unless staging is internal; can fill up).
		c["dev_side"] = int64(simkit.Pick(r, []int{1, 2, 2, 3}))
		c["dev_kb"] = int64(simkit.Pick(r, []int{48, 96, 256, 4096}))
		for i, sd := range []string{"alpha", "beta"} {
			if c["dev_side"]&(1<<i) != 0 {
				devSides = append(devSides, sd)
			}
		}
	}
	// Initial content (applied before the session exists).
	for i := r.Range(0, 8); i > 0; i-- {
		genEdit(r, p, "init", &id, untracked)
	}
	if p.Scenario == "disk-docker" {
		c["docker_ignores"] = 2
		c["sched_stall"], c["fs_gates"] = 0, int64(simkit.Pick(r, []int{0, 0, 3}))
		c["mode"] = int64(simkit.Pick(r, []int{0, 0, 1}))
		p.Ops = p.Ops[:0]
		for _, op := range [][3]string{{"alpha", "a/x", ""}, {"alpha", "a/gen/keep", ""}, {"alpha", "a/gen/junk1", ""}, {"beta", "a/gen/junk2", ""}} {
			id++
			p.Ops = append(p.Ops, simkit.Op{Actor: "init", Kind: "put", N: []int64{id, 0}, S: []string{op[0], op[1]}})
		}
	}
	dockerPaths := []string{"ig/x", "ig/a/s", "ig/a/b/p", "ig/a/b/q", "ig/c/t"}
	if p.Scenario == "disk-untracked" && r.Chance(1, 3) {
		// Docker-style ignores: an ignored directory that is traversed under a
		// mask (see configure), holding different content on the two sides.
		c["docker_ignores"] = 1
		for i := r.Range(2, 6); i > 0; i-- {
			id++
			p.Ops = append(p.Ops, simkit.Op{Actor: "init", Kind: "put", N: []int64{id, 0}, S: []string{simkit.Pick(r, []string{"alpha", "beta"}), simkit.Pick(r, dockerPaths)}})
		}
	}
	if r.Chance(1, 3) {
		// Start from identical roots so that deletions and edits dominate.
		c["mirror_init"] = 1
	}
	if p.Scenario == "model-exec" || p.Scenario == "disk-exec" {
		c["nonpreserving"] = int64(r.Range(1, 2)) // 1 alpha, 2 beta
	}
	n := r.Range(3, 25)
	if tier == "thorough" {
		n = r.Range(3, 60)
	}
	if onDisk {
		n = r.Range(3, 14)
	}
	lifecycle := p.Scenario == "lifecycle" || p.Scenario == "disk-lifecycle"
	for i := 0; i < n; i++ {
		if len(devSides) > 0 && r.Chance(1, 6) {
			// The device fills up (leaving 0..3 pages) or space is freed again.
			if r.Chance(2, 3) {
				p.Ops = append(p.Ops, simkit.Op{Actor: "user", Kind: "fill", N: []int64{int64(simkit.Pick(r, []int{0, 0, 1, 2, 3}))}, S: []string{simkit.Pick(r, devSides), ""}})
			} else {
				p.Ops = append(p.Ops, simkit.Op{Actor: "user", Kind: "unfill", S: []string{simkit.Pick(r, devSides), ""}})
			}
		}
		wide := 0
		if !onDisk && !lifecycle {
			wide = 3
		}
		if c["docker_ignores"] == 2 && r.Chance(1, 2) {
			// The excepted file comes and goes; ignored content beside it.
			id++
			side := simkit.Pick(r, []string{"alpha", "beta"})
			switch r.Intn(5) {
			case 0, 1:
				p.Ops = append(p.Ops, simkit.Op{Actor: "user", Kind: "del", S: []string{side, "a/gen/keep"}})
			case 2:
				p.Ops = append(p.Ops, simkit.Op{Actor: "user", Kind: "put", N: []int64{id, 0}, S: []string{side, "a/gen/keep"}})
			case 3:
				p.Ops = append(p.Ops, simkit.Op{Actor: "user", Kind: "put", N: []int64{id, 0}, S: []string{side, simkit.Pick(r, []string{"a/gen/junk1", "a/gen/junk3", "a/gen/sub/j"})}})
			case 4:
				p.Ops = append(p.Ops, simkit.Op{Actor: "client", Kind: "flush", N: []int64{1}})
			}
		}
		if c["docker_ignores"] == 1 && r.Chance(1, 4) {
			// The user works inside the ignored directory.
			id++
			side, path := simkit.Pick(r, []string{"alpha", "beta"}), simkit.Pick(r, dockerPaths)
			if r.Chance(2, 3) {
				p.Ops = append(p.Ops, simkit.Op{Actor: "user", Kind: "put", N: []int64{id, 0}, S: []string{side, path}})
			} else {
				p.Ops = append(p.Ops, simkit.Op{Actor: "user", Kind: "del", S: []string{side, path}})
			}
		}
		switch r.Weighted([]int{50, 15, 20, wide}) {
		case 3:
			// Many changes on one side and a few on the other within one cycle
			// (an unpacked archive, a branch switch): long change lists.
			side := simkit.Pick(r, []string{"alpha", "beta"})
			for k, m := 0, r.Range(9, 18); k < m; k++ {
				id++
				p.Ops = append(p.Ops, simkit.Op{Actor: "user", Kind: "put", N: []int64{id, 0}, S: []string{side, fmt.Sprintf("w%d", k)}})
			}
			for k := r.Range(1, 3); k > 0; k-- {
				id++
				p.Ops = append(p.Ops, simkit.Op{Actor: "user", Kind: "put", N: []int64{id, 0}, S: []string{other(side), fmt.Sprintf("v%d", k)}})
			}
			p.Ops = append(p.Ops, simkit.Op{Actor: "client", Kind: "flush", N: []int64{1}})
		case 0:
			genEdit(r, p, "user", &id, untracked)
		case 1:
			p.Ops = append(p.Ops, simkit.Op{Actor: "user", Kind: "sleep", N: []int64{int64(simkit.Pick(r, []int{1, 50, 2000}))}})
		case 2:
			if lifecycle {
				kinds := []string{"flush", "flush", "pause", "resume", "reset", "list", "restart", "sleep", "terminate", "crash"}
				weights := []int{20, 10, 12, 14, 6, 8, 8, 8, 1, 6}
				k := kinds[r.Weighted(weights)]
				op := simkit.Op{Actor: "client", Kind: k}
				switch k {
				case "flush":
					op.N = []int64{int64(r.Intn(2))}
				case "sleep":
					op.N = []int64{int64(simkit.Pick(r, []int{10, 1000, 20000}))}
				}
				if k == "terminate" && i < n*2/3 {
					op.Kind = "list"
				}
				p.Ops = append(p.Ops, op)
				if r.Chance(1, 4) {
					k2 := simkit.Pick(r, []string{"list", "flush", "sleep", "resume", "resume", "pause"})
					op2 := simkit.Op{Actor: "client2", Kind: k2, N: []int64{0}}
					if k2 == "sleep" {
						op2.N = []int64{500}
					}
					p.Ops = append(p.Ops, op2)
				}
			} else {
				p.Ops = append(p.Ops, simkit.Op{Actor: "client", Kind: "flush", N: []int64{int64(r.Intn(2))}})
			}
		}
	}
	if lifecycle && r.Chance(1, 4) {
		// Two callers at once: a command that stops the session (it holds the
		// controller while the loop winds down) and another caller's Resume
		// that arrives meanwhile and queues behind it.
		first := simkit.Pick(r, []string{"terminate", "terminate", "pause", "reset"})
		p.Ops = append(p.Ops, simkit.Op{Actor: "client", Kind: "flush", N: []int64{1}},
			simkit.Op{Actor: "client", Kind: first},
			simkit.Op{Actor: "client2", Kind: "resume", N: []int64{0}},
			simkit.Op{Actor: "client2", Kind: "sleep", N: []int64{2000}},
			simkit.Op{Actor: "client2", Kind: "list", N: []int64{0}})
	}
	if !lifecycle && p.Scenario != "model-halt" && p.Scenario != "disk-halt" && p.Scenario != "model-outcomes-enum" && (r.Chance(1, 6) || strings.HasSuffix(p.Scenario, "-crash")) {
		// The daemon crashes at an arbitrary point of the history (whatever it is
		// doing then: scanning, staging, in the middle of a transition, saving)
		// and starts again from what is on disk.
		for k := r.Range(1, 3); k > 0; k-- {
			at := r.Intn(len(p.Ops) + 1)
			for at < len(p.Ops) && p.Ops[at].Actor == "init" {
				at++
			}
			rest := append([]simkit.Op(nil), p.Ops[at:]...)
			// (a flush first, more often than not: the crash then tends to land
			// inside a cycle instead of an idle daemon)
			ins := []simkit.Op{{Actor: "client", Kind: "crash"}}
			if r.Chance(2, 3) {
				ins = []simkit.Op{{Actor: "client", Kind: "flush", N: []int64{0}}, {Actor: "client", Kind: "crash"}}
			}
			p.Ops = append(append(p.Ops[:at:at], ins...), rest...)
		}
	}
	if strings.HasSuffix(p.Scenario, "-crash") || (onDisk && p.Scenario != "disk-halt" && r.Chance(1, 10)) {
		// Crashes tied to commit points instead of a point of the history: right
		// after a rename took effect (under a root, or in the data directory's
		// staging area), or at a step of an atomic save.
		if r.Chance(1, 2) {
			p.Faults = append(p.Faults, simkit.Fault{Kind: "crash_after", Key: simkit.Pick(r, []string{"alpha", "beta", "data", "any"}), Nth: r.Range(1, 1000), S: simkit.Pick(r, []string{"r2", "r4", "r8"})})
		}
		if r.Chance(1, 3) {
			p.Faults = append(p.Faults, simkit.Fault{Kind: "crash_before", Key: "data", Nth: r.Range(1, 1000), S: simkit.Pick(r, []string{"r8", "r20", "r50"})})
		}
		if r.Chance(1, 2) {
			p.Faults = append(p.Faults, simkit.Fault{Kind: "crash_step", Key: simkit.Pick(r, []string{"archives", "archives", "sessions", "caches"}), Nth: r.Range(1, 6), S: simkit.Pick(r, []string{"write", "close", "chmod", "rename", "done"})})
		}
	}
	if p.Scenario == "disk-remote" {
		// One or both endpoints behind the agent protocol.
		c["remote_sides"] = int64(simkit.Pick(r, []int{1, 2, 2, 3}))
		c["link_frag"] = int64(simkit.Pick(r, []int{0, 0, 0, 4096, 300}))
		c["link_short"] = int64(simkit.Pick(r, []int{0, 0, 64}))
		c["link_delay_us"] = int64(simkit.Pick(r, []int{0, 0, 1000, 50000}))
		c["fs_gates"] = int64(simkit.Pick(r, []int{0, 0, 2, 3}))
		if r.Chance(1, 2) {
			for k := r.Range(1, 2); k > 0; k-- {
				p.Faults = append(p.Faults, simkit.Fault{Kind: "link_cut", Key: simkit.Pick(r, []string{"alpha", "beta"}), Nth: r.Range(1, 2),
					Arg: int64(r.SmallBiased(6000)), S: simkit.Pick(r, []string{"ab", "ba"})})
			}
		}
	}
	if p.Scenario == "disk-fulldev" {
		// The receiving root lives on its own small device that keeps running
		// out of space while multi-page files are copied into it from a staging
		// area on another device: writes fail part-way (genuine ENOSPC), space
		// comes back, and the session has to end up with whole files only.
		c["internal_staging"] = int64(simkit.Pick(r, []int{0, 0, 0, 1}))
		c["dev_kb"] = int64(simkit.Pick(r, []int{64, 128, 256}))
		if c["mode"] >= 2 {
			c["dev_side"] = int64(simkit.Pick(r, []int{2, 2, 3}))
		}
		devSides = devSides[:0]
		for i, sd := range []string{"alpha", "beta"} {
			if c["dev_side"]&(1<<i) != 0 {
				devSides = append(devSides, sd)
			}
		}
		for k := r.Range(2, 6); k > 0; k-- {
			at := r.Intn(len(p.Ops) + 1)
			for at < len(p.Ops) && p.Ops[at].Actor == "init" {
				at++
			}
			dst := simkit.Pick(r, devSides)
			src := "alpha"
			if dst == "alpha" && c["mode"] < 2 {
				src = "beta"
			}
			id++
			burst := []simkit.Op{
				{Actor: "user", Kind: "fill", N: []int64{int64(simkit.Pick(r, []int{0, 1, 1, 2, 3}))}, S: []string{dst, ""}},
				{Actor: "user", Kind: "putbig", N: []int64{id, int64(r.Intn(2)), int64(simkit.Pick(r, []int{10, 3000, 5000, 9000, 14000, 30000}))}, S: []string{src, simkit.Pick(r, pathVocabulary)}},
				{Actor: "client", Kind: "flush", N: []int64{int64(r.Intn(2))}},
			}
			if r.Chance(1, 2) {
				burst = append(burst, simkit.Op{Actor: "user", Kind: "sleep", N: []int64{int64(simkit.Pick(r, []int{50, 2000}))}}, simkit.Op{Actor: "user", Kind: "unfill", S: []string{dst, ""}})
			}
			rest := append([]simkit.Op(nil), p.Ops[at:]...)
			p.Ops = append(append(p.Ops[:at:at], burst...), rest...)
		}
	}
	if p.Scenario == "disk-edits" {
		// Few paths, all regular files on both sides, edited over and over:
		// replacements with a new inode, in-place rewrites of the same size
		// (often within the same second), mode flips and deletions, so that a
		// change frequently lands between a scan and the transition that
		// wants to replace or remove that very file.
		p.Ops = p.Ops[:0]
		c["mirror_init"] = 1
		c["fs_gates"] = int64(simkit.Pick(r, []int{0, 1, 2, 3}))
		small := []string{"a", "b", "d"}
		for _, path := range small {
			id++
			p.Ops = append(p.Ops, simkit.Op{Actor: "init", Kind: "put", N: []int64{id, 0}, S: []string{"alpha", path}})
		}
		for i := r.Range(6, 24); i > 0; i-- {
			side := simkit.Pick(r, []string{"alpha", "beta"})
			path := simkit.Pick(r, small)
			id++
			switch r.Weighted([]int{30, 40, 8, 8, 8, 6}) {
			case 0:
				p.Ops = append(p.Ops, simkit.Op{Actor: "user", Kind: "put", N: []int64{id, int64(r.Intn(2))}, S: []string{side, path}})
			case 1:
				p.Ops = append(p.Ops, simkit.Op{Actor: "user", Kind: "edit", N: []int64{id, int64(simkit.Pick(r, []int{0, 0, 1, 2, 2}))}, S: []string{side, path}})
			case 2:
				p.Ops = append(p.Ops, simkit.Op{Actor: "user", Kind: "chmod", S: []string{side, path}})
			case 3:
				p.Ops = append(p.Ops, simkit.Op{Actor: "user", Kind: "del", S: []string{side, path}})
			case 4:
				p.Ops = append(p.Ops, simkit.Op{Actor: "client", Kind: "flush", N: []int64{int64(r.Intn(2))}})
			case 5:
				p.Ops = append(p.Ops, simkit.Op{Actor: "user", Kind: "sleep", N: []int64{int64(simkit.Pick(r, []int{1, 50, 1100}))}})
			}
		}
	}
	if p.Scenario == "disk-escape" {
		// Swap directories and files on planned paths for links to the canary.
		c["fs_gates"] = int64(simkit.Pick(r, []int{3, 15, 31, 63, 2}))
		for i := range p.Ops {
			if (p.Ops[i].Actor == "user" || p.Ops[i].Actor == "init") && p.Ops[i].Kind != "put" && p.Ops[i].Kind != "sleep" && p.Ops[i].Kind != "fill" && p.Ops[i].Kind != "unfill" && r.Chance(1, 2) {
				p.Ops[i].Kind = "swaplink"
			}
		}
		for k := r.Range(1, 4); k > 0; k-- {
			at := r.Intn(len(p.Ops) + 1)
			op := simkit.Op{Actor: "user", Kind: "swaplink", S: []string{simkit.Pick(r, []string{"alpha", "beta"}), simkit.Pick(r, []string{"a", "b", "c", "a/b", "a/a"})}}
			p.Ops = append(p.Ops[:at:at], append([]simkit.Op{op}, p.Ops[at:]...)...)
		}
		if r.Chance(1, 2) && c["dev_side"] == 0 {
			// Root creation: the receiving root does not exist yet, the first
			// cycle creates it with everything in it through one change at the
			// root path - and the user swaps a directory that has just been
			// made there for a link to the canary.
			c["mirror_init"] = 0
			dst := "beta"
			var pre []simkit.Op
			for _, path := range []string{"a/b/d", "a/a/a", "c/b", "b"} {
				id++
				pre = append(pre, simkit.Op{Actor: "init", Kind: "put", N: []int64{id, 0}, S: []string{"alpha", path}})
			}
			p.Ops = append(append(pre, p.Ops...), simkit.Op{Actor: "init", Kind: "rootdel", S: []string{dst, ""}})
			id++
			// (Armed before the session exists: the first cycle starts at once.)
			armed := simkit.Op{Actor: "init", Kind: "arm", N: []int64{int64(r.Range(2, 16)), id}, S: []string{dst, "transition", "swaplink", simkit.Pick(r, []string{"a", "a/b", "a/a", "c"})}}
			if r.Chance(2, 3) {
				// ... exactly between the mkdirat that made it and the openat
				// that enters it.
				armed.S = append(armed.S, "mkdirat")
			}
			p.Ops = append(p.Ops, armed,
				simkit.Op{Actor: "client", Kind: "flush", N: []int64{1}})
			c["root_creation"] = 1
		}
		if r.Chance(1, 3) {
			// Copy through a swapped parent: both sides hold a/b/d; one side
			// copies it to a new path, so the other side's staging can source
			// the content from its own a/b/d - whose parent the user swaps for a
			// link to the canary (which holds files at the remaining relative
			// paths) right before or inside that staging.
			c["mirror_init"] = 1
			src, dst := "alpha", "beta"
			if r.Chance(1, 2) && c["mode"] < 2 {
				src, dst = dst, src
			}
			id++
			pre := []simkit.Op{{Actor: "init", Kind: "put", N: []int64{id, 0}, S: []string{"alpha", "a/b/d"}}}
			p.Ops = append(pre, p.Ops...)
			p.Ops = append(p.Ops, simkit.Op{Actor: "client", Kind: "flush", N: []int64{1}},
				simkit.Op{Actor: "user", Kind: simkit.Pick(r, []string{"cp", "cp", "mv"}), S: []string{src, "a/b/d", simkit.Pick(r, []string{"zcopy", "c/zcopy"})}},
				simkit.Op{Actor: "user", Kind: "arm", N: []int64{int64(r.Range(1, 6)), id}, S: []string{dst, simkit.Pick(r, []string{"stage", "stage", "transition"}), "swaplink", simkit.Pick(r, []string{"a", "a/b"})}})
		}
		if r.Chance(1, 2) {
			// Sibling burst: both sides share a deep directory; one side gains
			// several new entries in it at once (so one Transition call walks
			// to the same parent repeatedly) while the user swaps an ancestor
			// of that directory for a link on the receiving side.
			c["mirror_init"] = 1
			src, dst := "alpha", "beta"
			if r.Chance(1, 2) {
				src, dst = dst, src
			}
			id++
			pre := []simkit.Op{{Actor: "init", Kind: "put", N: []int64{id, 0}, S: []string{"alpha", "a/b/c"}}}
			var burst []simkit.Op
			for _, leaf := range []string{"a/b/d", "a/b/e", "a/b/a"}[:r.Range(2, 3)] {
				id++
				burst = append(burst, simkit.Op{Actor: "user", Kind: "put", N: []int64{id, 0}, S: []string{src, leaf}})
			}
			if r.Chance(1, 3) {
				burst = append(burst, simkit.Op{Actor: "user", Kind: "swaplink", S: []string{dst, simkit.Pick(r, []string{"a", "a", "a/b"})}})
			} else {
				// ... or exactly at the Nth system call of a transition there.
				p.Faults = append(p.Faults, simkit.Fault{Kind: "fs_user", Key: dst + ".transition", Nth: r.Range(1, 10), S: "swaplink:" + simkit.Pick(r, []string{"a", "a", "a/b"})})
			}
			at := 0
			for at < len(p.Ops) && p.Ops[at].Actor == "init" {
				at++
			}
			at += r.Intn(len(p.Ops) - at + 1)
			rest := append([]simkit.Op(nil), p.Ops[at:]...)
			p.Ops = append(append(append(pre, p.Ops[:at]...), burst...), rest...)
		}
	}
	if p.Scenario == "model-halt" || p.Scenario == "disk-halt" {
		// Converge first, then one root event, then give it time.
		c["halt_side"] = int64(r.Intn(2))
		c["halt_kind"] = int64(r.Intn(4)) // 0 delete, 1 replace by file, 2 empty, 3 control: empty both
		if c["halt_kind"] == 2 && r.Chance(1, 2) && p.Scenario == "model-halt" {
			// (Model endpoints only: their snapshots are instantaneous, which
			// leaves the straddling cycle as the one case without expectation;
			// on real endpoints polling snapshots add more of them than the
			// variant is worth.)
			c["halt_peer_shrinks"] = 1
		}
		if onDisk && r.Chance(1, 2) {
			c["halt_midcycle"] = 1
			c["halt_activity"] = int64(r.Intn(4))
			c["halt_nth"] = int64(r.Range(1, 8))
			c["mirror_init"] = 1
		}
	}
	if p.Scenario == "model-outcomes-enum" {
		c["enum_cap"] = 24
		if tier == "thorough" {
			c["enum_cap"] = 200
		}
		c["enum_seed"] = int64(r.Uint64() >> 1)
	}
	if len(devSides) > 0 && r.Chance(2, 3) {
		// Staging outside the root, i.e. on another device than the root.
		c["internal_staging"] = 0
	}
	if onDisk && p.Scenario != "disk-halt" && p.Scenario != "disk-escape" && r.Chance(1, 4) {
		// Creation collision: one side gains a new file, and while the other
		// side is staging or applying the creation, something appears at that
		// very path there (the no-replace guarantee of creations).
		src, dst := "alpha", "beta"
		if r.Chance(1, 2) && c["mode"] < 2 {
			src, dst = dst, src
		}
		path := simkit.Pick(r, []string{"zc", "a/zc", "a/b/zc", "d"})
		id++
		p.Ops = append(p.Ops, simkit.Op{Actor: "user", Kind: "put", N: []int64{id, int64(r.Intn(2))}, S: []string{src, path}})
		kinds := []string{"put", "put", "mkdir", "link"}
		if untracked {
			kinds = []string{"untracked", "untracked", "put", "problem"}
		}
		id++
		// Armed when the user reaches this point of the history: it strikes just
		// before the Nth system call of the receiving side's next staging or
		// transition activity.
		p.Ops = append(p.Ops, simkit.Op{Actor: "user", Kind: "arm", N: []int64{int64(r.Range(1, 8)), id},
			S: []string{dst, simkit.Pick(r, []string{"transition", "transition", "stage"}), simkit.Pick(r, kinds), path}})
	}
	if p.Scenario == "disk-exec" && r.Chance(2, 3) {
		// The point of C18 on a real endpoint: a file both sides hold is edited on
		// the side that cannot store executability, and while the storing side is
		// staging or applying that edit the user flips the file's mode there.
		nside, pside := "alpha", "beta"
		if c["nonpreserving"] == 2 {
			nside, pside = "beta", "alpha"
		}
		if !(c["mode"] >= 2 && nside == "beta") { // one-way: edits on beta do not travel
			path := simkit.Pick(r, []string{"a", "b", "d", "a/b/c"})
			id++
			// Or, instead of the user's mode flip: the storing side fails at one
			// of the system calls that give the edited file its mode and move
			// it into place (the file is executable there).
			failing := r.Chance(1, 3)
			exec := int64(r.Intn(2))
			if failing {
				exec = 1
			}
			pre := []simkit.Op{{Actor: "init", Kind: "put", N: []int64{id, exec}, S: []string{"alpha", path}}}
			c["mirror_init"] = 1
			p.Ops = append(pre, p.Ops...)
			id++
			p.Ops = append(p.Ops, simkit.Op{Actor: "client", Kind: "flush", N: []int64{1}},
				simkit.Op{Actor: "user", Kind: "sleep", N: []int64{2000}},
				simkit.Op{Actor: "user", Kind: simkit.Pick(r, []string{"edit", "put"}), N: []int64{id, 0}, S: []string{nside, path}})
			if failing {
				p.Faults = append(p.Faults, simkit.Fault{Kind: "fs_errno", Key: pside + ".transition." + simkit.Pick(r, []string{"fchmod", "fchmod", "openat", "renameat"}), Nth: r.Range(1, 1000), Arg: int64(simkit.Pick(r, []int{1, 2})), S: simkit.Pick(r, []string{"r1", "r2", "r4"})})
				p.Ops = append(p.Ops, simkit.Op{Actor: "client", Kind: "flush", N: []int64{1}})
			} else {
				p.Ops = append(p.Ops, simkit.Op{Actor: "user", Kind: "arm", N: []int64{int64(r.Range(1, 8)), id}, S: []string{pside, simkit.Pick(r, []string{"transition", "stage", "stage"}), "chmod", path}})
			}
		}
	}
	// Fault rules.
	if onDisk && r.Chance(1, 2) {
		// User modifications placed inside scans, staging and transitions.
		paths := pathVocabulary
		if p.Scenario == "disk-edits" {
			paths = []string{"a", "b", "d"}
		}
		kinds := []string{"put", "edit", "del", "chmod", "mkdir"}
		if untracked {
			// Unsupported content appears at a path a transition is about to fill.
			kinds = append(kinds, "untracked", "untracked", "untracked")
		}
		if p.Scenario == "disk-escape" {
			kinds = append(kinds, "swaplink", "swaplink")
		}
		for k := r.Range(1, 3); k > 0; k-- {
			id++
			p.Faults = append(p.Faults, simkit.Fault{Kind: "fs_user",
				Key: simkit.Pick(r, []string{"alpha", "beta"}) + "." + simkit.Pick(r, []string{"scan", "scan", "transition", "transition", "stage"}),
				Nth: r.Range(1, 60), Arg: id, S: simkit.Pick(r, kinds) + ":" + simkit.Pick(r, paths)})
		}
	}
	if (p.Scenario == "disk" || p.Scenario == "disk-untracked" || p.Scenario == "disk-remote" || p.Scenario == "disk-edits" || p.Scenario == "disk-exec") && r.Chance(1, 3) {
		// System call failures inside scans, staging and transitions.
		sites := [][2]string{{"transition", "openat"}, {"transition", "mkdirat"}, {"transition", "renameat"}, {"transition", "renameat"}, {"transition", "unlinkat"},
			{"transition", "fchmod"}, {"transition", "symlinkat"}, {"transition", "fstatat"}, {"transition", "readdir"},
			{"scan", "openat"}, {"scan", "read"}, {"scan", "fstatat"}, {"scan", "readdir"}, {"scan", "readlinkat"},
			{"stage", "openat"}, {"supply", "read"}, {"supply", "openat"}, {"receive", "openat"}}
		if p.Scenario == "disk-exec" {
			// Where a file is given its mode and moved into place.
			sites = [][2]string{{"transition", "openat"}, {"transition", "fchmod"}, {"transition", "fchmod"}, {"transition", "renameat"}, {"transition", "fstatat"}, {"scan", "openat"}}
		}
		for k := r.Range(1, 2); k > 0; k-- {
			site := simkit.Pick(r, sites)
			errno := int64(simkit.Pick(r, []int{1, 2, 3})) // EIO, EACCES, ENOSPC
			if site[1] == "renameat" && r.Chance(1, 2) {
				errno = 5 // EXDEV: staging on another device
			}
			// Nth is the salt of a rate rule: which operations fail depends on
			// their path and per-path occurrence, not on sibling order.
			p.Faults = append(p.Faults, simkit.Fault{Kind: "fs_errno", Key: simkit.Pick(r, []string{"alpha", "beta"}) + "." + site[0] + "." + site[1], Nth: r.Range(1, 1000), Arg: errno, S: simkit.Pick(r, []string{"r4", "r8", "r16"})})
		}
	}
	if p.Scenario == "model-outcomes" {
		for k := r.Range(1, 6); k > 0; k-- {
			p.Faults = append(p.Faults, simkit.Fault{Kind: "outcome", Key: simkit.Pick(r, []string{"alpha", "beta"}), Nth: r.Range(1, 8), Arg: int64(r.Range(1, 400))})
		}
		if r.Chance(1, 3) {
			p.Faults = append(p.Faults, simkit.Fault{Kind: "transition_error", Key: simkit.Pick(r, []string{"alpha", "beta"}), Nth: r.Range(1, 4)})
		}
		if r.Chance(1, 3) {
			p.Faults = append(p.Faults, simkit.Fault{Kind: "scan_error", Key: simkit.Pick(r, []string{"alpha", "beta"}), Nth: r.Range(1, 5), Arg: int64(r.Intn(2))})
		}
	}
	if lifecycle && r.Chance(1, 3) {
		// A save of the session file fails (full disk) - typically the one a
		// Pause performs.
		p.Faults = append(p.Faults, simkit.Fault{Kind: "save_fail", Key: "sessions", Nth: r.Range(2, 6)})
	}
	if lifecycle && r.Chance(1, 4) {
		p.Faults = append(p.Faults, simkit.Fault{Kind: "connect_error", Key: simkit.Pick(r, []string{"alpha", "beta"}), Nth: r.Range(1, 3)})
	}
}

// genLinks draws the C16 workload: symbolic links whose targets are built
// from the tokens {name, ".", "..", empty} joined by "/", plus the rejected
// classes, planted at depths 0..3.
func genLinks(p *simkit.Plan, r *simkit.Rand, tier string) {
	c := p.Cfg
	c["mode"] = int64(simkit.Pick(r, []int{0, 1, 3}))
	c["sched_sticky"] = int64(simkit.Pick(r, []int{0, 60}))
	if p.Scenario == "links-mixed" {
		c["model_alpha"] = 1
		c["mode"] = int64(simkit.Pick(r, []int{0, 1, 2, 3}))
	}
	c["fs_gates"] = 0
	side := func() string {
		if p.Scenario == "links-mixed" {
			return "alpha"
		}
		return simkit.Pick(r, []string{"alpha", "beta"})
	}
	target := func() string {
		switch r.Intn(12) {
		case 0:
			return "/" + simkit.Pick(r, []string{"etc", "x/y"})
		case 1:
			return simkit.Pick(r, []string{"c:x", "x\\y", "x:"})
		case 2:
			return strings.Repeat("z", simkit.Pick(r, []int{246, 247, 248}))
		}
		n := r.Range(1, 6)
		toks := make([]string, n)
		for i := range toks {
			toks[i] = simkit.Pick(r, []string{"x", "y", ".", "..", "..", ""})
		}
		return strings.Join(toks, "/")
	}
	actor := "init"
	for _, dir := range []string{"a/b/c", "x/y"} {
		p.Ops = append(p.Ops, simkit.Op{Actor: actor, Kind: "mkdir", S: []string{"alpha", dir}})
		if p.Scenario != "links-mixed" {
			p.Ops = append(p.Ops, simkit.Op{Actor: actor, Kind: "mkdir", S: []string{"beta", dir}})
		}
	}
	n := r.Range(2, 10)
	var used []string
	for i := 0; i < n; i++ {
		if i > n/2 {
			actor = "user"
		}
		where := simkit.Pick(r, []string{"l", "a/l", "a/b/l", "a/b/c/l", "m", "a/m", "a/b/m", "x/l", "x/y/l"})
		tg := target()
		if len(used) > 0 && r.Chance(1, 2) {
			// The same target text at another depth resolves elsewhere.
			tg = simkit.Pick(r, used)
		}
		used = append(used, tg)
		p.Ops = append(p.Ops, simkit.Op{Actor: actor, Kind: "link", S: []string{side(), where, tg}})
		if r.Chance(1, 4) {
			p.Ops = append(p.Ops, simkit.Op{Actor: "client", Kind: "flush", N: []int64{0}})
		}
	}
}

func cleanDataDir(dir string) {
	os.RemoveAll(dir)
	os.MkdirAll(dir, 0o700)
}

// execSession runs one session-level scenario (model or disk endpoints). A run
// is one or more incarnations of the simulated daemon: the client operation
// "crash" freezes the whole incarnation where it stands (simkit.Crash) and the
// next one starts, in a fresh bubble, from what is on disk - roots, data
// directory - and nothing else.
func execSession(t *testing.T, plan *simkit.Plan) *simkit.Result {
	dataDir := filepath.Join(os.Getenv("MUTAGEN_DATA_DIRECTORY"))
	if dataDir == "" {
		d, _ := simkit.MkdirTemp("/dev/shm", "verif-syncsim-data-")
		dataDir = d
		os.Setenv("MUTAGEN_DATA_DIRECTORY", d)
	}
	cleanDataDir(dataDir)
	var nontrivial bool
	var fp string
	var h *harness
	// Index of the next operation of each actor; survives a crash (an operation
	// is consumed when it is granted, i.e. when it takes effect).
	opIndex := map[string]int{}
	created := false
	defer func() {
		if h != nil && h.disk != nil {
			h.teardownDisk()
		}
		setHook(nil)
		filesystem.VerifAtomicStepHook = nil
		verif.YieldHook = nil
		current = nil
	}()
	verif.YieldHook = func(site string) {
		if h != nil {
			h.lifecycleYield(site)
		}
	}
	res := simkit.RunPhases(t, plan, simkit.Options{MaxSteps: 20000, Horizon: 20 * time.Minute, RealTimeout: 90 * time.Second}, func(s *simkit.Sim, phase int) bool {
		if phase == 0 {
			h = &harness{
				s: s, plan: plan, mode: modes[plan.C("mode")%4], dataDir: dataDir,
				trees:   map[string]*core.Entry{"alpha": dirEntry(), "beta": dirEntry()},
				version: map[string]int{}, scanned: map[string]int{"alpha": -1, "beta": -1},
				preserve: map[string]bool{"alpha": true, "beta": true}, userSeq: map[string]int64{},
				inflightEP: map[string]int{}, transInFlight: map[string]int{}, scanCount: map[string]int{}, scanStarts: map[string][]int64{},
				lastScan: map[string]*scanRecord{}, outcomeNo: map[string]int{}, transCallNo: map[string]int{},
				ideal: true, pending: map[string][]pendingResult{}, modelSide: map[string]bool{},
			}
			if plan.C("model_alpha") == 1 {
				h.modelSide["alpha"] = true
			}
			current = h
			switch plan.C("nonpreserving") {
			case 1:
				h.preserve["alpha"] = false
			case 2:
				h.preserve["beta"] = false
			}
			if strings.HasPrefix(plan.Scenario, "disk") || strings.HasPrefix(plan.Scenario, "links") {
				if err := h.setupDisk(); err != nil {
					panic(err)
				}
			}
			if h.disk == nil {
				// Model endpoints: no roots on disk, but the data directory is
				// real - crashes can be placed at its system calls too.
				dd := &diskState{h: h}
				setHook(func(op string, dirfd int, path string, dirfd2 int, path2 string) error {
					if s.Crashed() {
						s.ParkForever()
					}
					if s.PassThrough() {
						return nil
					}
					abs := joinFD(dirfd, path)
					dd.crashBefore(op, "data", filepath.Base(abs))
					if op == "renameat" || op == "renameat2" {
						dd.crashAfterRename(op, dirfd, path, dirfd2, path2, "data", filepath.Base(joinFD(dirfd2, path2)))
					}
					return nil
				})
			}
			// Nothing of a crashed incarnation reaches the data directory any
			// more: its saves stop at their next step.
			filesystem.VerifAtomicStepHook = func(step, target string, temporary *os.File) {
				if s.Crashed() {
					s.ParkForever()
				}
				// Fault kind crash_step: the daemon dies at this step of the
				// Nth atomic save of a file of that kind (sessions, archives,
				// caches), optionally with part of the data in the temporary.
				kind := filepath.Base(filepath.Dir(target))
				if step == "write" {
					s.Occur("save." + kind)
				}
				// Fault kind save_fail: the Nth save of a file of that kind fails
				// for real (the temporary's descriptor is redirected to
				// /dev/full, so mutagen's own write gets ENOSPC and its own
				// error path runs).
				if step == "write" && temporary != nil && !s.FaultsStopped() {
					for _, f := range s.FaultsOfKind("save_fail") {
						if f.Key == kind && s.OccurCount("save."+kind) == f.Nth {
							if full, err := os.OpenFile("/dev/full", os.O_WRONLY, 0); err == nil {
								syscall.Dup3(int(full.Fd()), int(temporary.Fd()), 0)
								full.Close()
								s.Count("fault.save_fails", 1)
								s.Logf("fault", "save %d of %s fails (no space left on device)", f.Nth, kind)
							}
						}
					}
				}
				for _, f := range s.FaultsOfKind("crash_step") {
					if s.FaultsStopped() || f.Key != kind || f.S != step {
						continue
					}
					if s.OccurCount("save."+kind) == f.Nth {
						s.Logf("fault", "the daemon dies at step %q of save %d of %s", step, f.Nth, kind)
						s.Count("fault.crash_at_save_step", 1)
						s.Crash()
						s.ParkForever()
					}
				}
			}
			// Initial content.
			for _, op := range plan.Ops {
				if op.Actor == "init" {
					h.applyUserOp(op)
				}
			}
			if plan.C("mirror_init") == 1 {
				h.mirrorInit()
			}
		} else {
			h.afterCrash()
		}
		// Channels belong to the bubble they were made in.
		h.mu.Lock()
		h.pollWake = map[string]chan struct{}{"alpha": make(chan struct{}, 1), "beta": make(chan struct{}, 1)}
		h.mu.Unlock()
		h.logger = h.newLogger()
		// (No faults while this goroutine - the scheduler's - is itself inside
		// the system under test: a crash would park the scheduler.)
		s.HoldFaults(true)
		mgr, err := synchronization.NewManager(h.logger)
		if err != nil {
			if phase > 0 {
				s.Violate("C27", "unloadable-after-crash", "NewManager", "after a crash the daemon cannot start from what is on disk: %v", err)
				return false
			}
			panic(err)
		}
		h.mu.Lock()
		h.mgr = mgr
		h.mu.Unlock()
		if phase > 0 {
			h.checkAfterCrash(mgr)
			if !created {
				// The daemon died while the session was being created. Whatever
				// made it to disk decides: a complete session is adopted, a
				// half-created one (session file without archive) is terminated
				// by the user, and creation starts over. Done by an actor under
				// the scheduler: the session's run loop needs its gates granted.
				var adoptMu sync.Mutex
				adopted := false
				s.Go("client", func() {
					defer func() { adoptMu.Lock(); adopted = true; adoptMu.Unlock() }()
					_, states, _ := mgr.List(context.Background(), &selection.Selection{All: true}, 0)
					for _, st := range states {
						id := st.Session.Identifier
						h.mu.Lock()
						h.sessionID = id
						h.sel = &selection.Selection{Specifications: []string{id}}
						h.mu.Unlock()
						if _, aerr := h.loadArchive(); aerr == nil && !created {
							created = true
							s.Count("probe.session_adopted_after_crash_in_create", 1)
							continue
						}
						s.Count("probe.half_created_session_terminated", 1)
						if terr := mgr.Terminate(context.Background(), &selection.Selection{Specifications: []string{id}}, ""); terr == nil {
							// C29: terminating removes the persisted state, also of
							// a session that a crash left half-created.
							if _, e := os.Stat(h.sessionPath()); e == nil {
								s.Violate("C29", "terminate-left-session-file", "half-created", "Terminate of a session left half-created by a crash returned success but its session file is still there (it will run again after the next restart)")
							}
						}
						if !created {
							h.mu.Lock()
							h.sessionID, h.sel = "", nil
							h.mu.Unlock()
						}
					}
				})
				s.Loop(func() bool { adoptMu.Lock(); defer adoptMu.Unlock(); return adopted })
			}
		}
		s.HoldFaults(false)
		configuration := &synchronization.Configuration{SynchronizationMode: h.mode}
		h.configure(configuration)
		alphaURL := &urlpkg.URL{Kind: urlpkg.Kind_Synchronization, Protocol: urlpkg.Protocol_Local, Path: h.rootPath("alpha")}
		betaURL := &urlpkg.URL{Kind: urlpkg.Kind_Synchronization, Protocol: urlpkg.Protocol_Local, Path: h.rootPath("beta")}

		var mu sync.Mutex
		running := 0
		crashNow := false
		start := func(name string, fn func()) {
			mu.Lock()
			running++
			mu.Unlock()
			s.Go(name, func() {
				defer func() { mu.Lock(); running--; mu.Unlock() }()
				fn()
			})
		}
		allDone := func() bool { mu.Lock(); defer mu.Unlock(); return running == 0 || crashNow || s.Crashed() }
		s.Eligible = func(g *simkit.Gate) bool {
			if strings.HasPrefix(g.Label, "lk.") {
				// A caller waiting for the controller's lifecycle lock.
				h.mu.Lock()
				defer h.mu.Unlock()
				return h.lifecycleHeld == 0
			}
			if !strings.HasPrefix(g.Label, "client") && g.Label != "settle" {
				return true
			}
			h.mu.Lock()
			defer h.mu.Unlock()
			if h.mgrBusy {
				return false
			}
			// While a lifecycle command is in flight another caller may pause,
			// resume or flush (the controller's lifecycle lock is emulated by
			// gates, see lifecycleYield); commands that replace the manager or
			// end the session wait for it.
			if h.lifecycleBusy > 0 && g.Key != "sleep" && g.Key != "list" && g.Key != "pause" && g.Key != "resume" && g.Key != "flush" {
				return false
			}
			return true
		}
		s.Invariant = h.invariant
		opsOf := func(actor string) []simkit.Op {
			var ops []simkit.Op
			for _, op := range plan.Ops {
				if op.Actor == actor {
					ops = append(ops, op)
				}
			}
			return ops
		}
		// next hands out the actor's next operation once it has been granted.
		next := func(actor string, ops []simkit.Op) (simkit.Op, bool) {
			mu.Lock()
			i := opIndex[actor]
			mu.Unlock()
			if i >= len(ops) || s.PassThrough() {
				return simkit.Op{}, false
			}
			op := ops[i]
			if op.Kind == "sleep" && actor != "client" && actor != "client2" {
				mu.Lock()
				opIndex[actor] = i + 1
				mu.Unlock()
				return op, true
			}
			s.Gate(actor, op.Kind)
			mu.Lock()
			opIndex[actor] = i + 1
			mu.Unlock()
			return op, true
		}

		// Session creation happens under the scheduler too (it connects).
		start("client", func() {
			if !created {
				s.Gate("client", "create")
				id, err := mgr.Create(context.Background(), alphaURL, betaURL, configuration, &synchronization.Configuration{}, &synchronization.Configuration{}, "sim", nil, false, "")
				if err != nil {
					s.Logf("client", "create failed: %v", err)
					return
				}
				h.mu.Lock()
				h.sessionID = id
				h.sel = &selection.Selection{Specifications: []string{id}}
				h.mu.Unlock()
				mu.Lock()
				created = true
				mu.Unlock()
				s.Logf("client", "created session")
			}
			ops := opsOf("client")
			for {
				op, ok := next("client", ops)
				if !ok {
					return
				}
				if op.Kind == "crash" {
					// The daemon dies here, whatever it was doing.
					s.Logf("client", "the daemon crashes")
					mu.Lock()
					crashNow = true
					mu.Unlock()
					s.Crash()
					return
				}
				h.clientOp("client", op)
			}
		})
		waitCreated := func() bool {
			for i := 0; i < 100000; i++ {
				mu.Lock()
				ok := created
				mu.Unlock()
				if ok || s.PassThrough() {
					return ok
				}
				time.Sleep(time.Millisecond + 7*time.Microsecond)
			}
			return false
		}
		for _, actor := range []string{"user", "client2"} {
			actor := actor
			ops := opsOf(actor)
			if len(ops) == 0 {
				continue
			}
			start(actor, func() {
				if actor == "client2" && !waitCreated() {
					return
				}
				for {
					op, ok := next(actor, ops)
					if !ok {
						return
					}
					if op.Kind == "sleep" && actor == "user" {
						time.Sleep(time.Duration(op.Int(0))*time.Millisecond + 53*time.Microsecond)
						continue
					}
					if actor == "user" {
						h.applyUserOp(op)
					} else {
						h.clientOp(actor, op)
					}
				}
			})
		}
		stop := s.Loop(allDone)
		mu.Lock()
		crashed := crashNow || s.Crashed()
		mu.Unlock()
		if crashed {
			s.Logf("sim", "incarnation %d ended by a crash at step %d", phase, s.Step())
			h.noteCrash()
			return true
		}
		s.Logf("sim", "main phase ended: %v at step %d", stop, s.Step())
		if stop != simkit.StopCond {
			h.reportHang("main phase", stop)
		}
		mu.Lock()
		ok := created
		mu.Unlock()
		if ok && stop == simkit.StopCond {
			// Settling phase: faults off, user idle.
			s.SetBudget(20000, 15*time.Minute)
			start("settle", func() { h.settle() })
			stop = s.Loop(allDone)
			s.Logf("sim", "settling ended: %v at step %d", stop, s.Step())
			if stop != simkit.StopCond {
				h.reportHang("settling phase", stop)
			} else {
				h.finalChecks()
			}
		}
		nontrivial = s.Counter("probe.transitions_applied")+s.Counter("probe.disk_transitions") >= 1 && s.Counter("probe.plans_checked")+s.Counter("probe.disk_scans") >= 2
		fp = fmt.Sprint(s.Counter("probe.transitions_applied"), s.Counter("probe.conflicts"), render(h.trees["alpha"]), render(h.trees["beta"]))
		s.Finish()
		h.mu.Lock()
		m := h.mgr
		h.mu.Unlock()
		m.Shutdown()
		s.WaitActors(2 * time.Minute)
		return false
	})
	res.NonTrivial = nontrivial
	res.Fingerprint = simkit.Digest(res.JournalHash, fp)
	return res
}

// noteCrash records, at the instant of a crash, what the next incarnation may
// and may not assume.
func (h *harness) noteCrash() {
	h.mu.Lock()
	defer h.mu.Unlock()
	for _, c := range h.cmds {
		if c.ret == 0 {
			c.ret = -1 // never returns: its daemon is gone
		}
	}
	h.lifecycleBusy, h.resumeInFlight, h.lifecycleHeld, h.mgrBusy = 0, 0, 0, false
	// C05 across a crash: while a cycle's transitions have not all returned,
	// no endpoint has reported anything for it, so the archive on disk must
	// still be exactly the state that cycle started from.
	h.crashArchiveOn = false
	if h.cycleN > 0 && h.resetSeq == 0 {
		for _, side := range []string{"alpha", "beta"} {
			if len(h.expectedPlan[side]) > 0 && h.transReturned[side] != h.cycleN {
				h.crashArchiveOn, h.crashArchive = true, cloneEntry(h.cycleAncestor)
			}
		}
	}
}

// afterCrash resets everything the harness knew about the crashed incarnation's
// volatile state. What it knows about durable state stays: the roots (model
// trees or disk), the user's edit history, whether Pause or Terminate had
// returned before the crash.
func (h *harness) afterCrash() {
	h.mu.Lock()
	defer h.mu.Unlock()
	h.inflightEP = map[string]int{}
	h.transInFlight = map[string]int{}
	n := max(h.scanCount["alpha"], h.scanCount["beta"]) + 1
	h.scanCount = map[string]int{"alpha": n, "beta": n}
	h.evaluated = n
	h.lastScan = map[string]*scanRecord{}
	h.expectedPlan = nil
	h.expectedPost = nil
	h.pending = map[string][]pendingResult{}
	h.cycleClean, h.cycleFresh, h.cycleN = false, false, 0
	h.resetSeq = 0
	h.quiet, h.atRest, h.restError = false, false, ""
	// A transition that was being applied when the daemon died is a fault as far
	// as "every change was applied exactly" is concerned.
	h.ideal = false
	if d := h.disk; d != nil {
		d.mu.Lock()
		d.lastSnap = map[string]*core.Entry{}
		d.scanStart = map[string]int64{}
		d.transStart = map[string]int64{}
		d.midcycle = nil
		d.mu.Unlock()
		d.freshAt = map[string]int64{}
		d.transEnd = map[string]int64{}
	}
}

// checkAfterCrash is what C27 (3), C05 (4) and C29 promise about a daemon that
// starts again after a crash at an arbitrary point.
func (h *harness) checkAfterCrash(mgr *synchronization.Manager) {
	s := h.s
	h.mu.Lock()
	wasPaused, wasTerm, id := h.pausedSince > 0, h.terminatedSince > 0, h.sessionID
	h.mu.Unlock()
	s.Count("probe.restarts_after_crash", 1)
	if id == "" {
		return
	}
	_, states, err := mgr.List(context.Background(), &selection.Selection{All: true}, 0)
	if err != nil {
		s.Violate("C27", "unloadable-after-crash", "List", "listing sessions after a crash failed: %v", err)
		return
	}
	if wasTerm && len(states) != 0 {
		s.Violate("C29", "terminated-session-reloaded", "crash", "a session whose termination had returned is listed again after a crash")
	}
	if !wasTerm && len(states) != 1 {
		s.Violate("C27", "session-lost-in-crash", "NewManager", "the session was not loaded after a crash (%d sessions listed): its files are missing or unreadable", len(states))
	}
	if len(states) == 1 && wasPaused && !states[0].Session.Paused {
		s.Violate("C29", "paused-state-lost", "crash", "Pause had returned before the crash and the session is not paused after it")
	}
	h.mu.Lock()
	expectOn, expect := h.crashArchiveOn, h.crashArchive
	h.crashArchiveOn = false
	h.mu.Unlock()
	if expectOn && !wasTerm {
		if anc, aerr := h.loadArchive(); aerr == nil {
			s.Count("probe.archive_checked_after_crash_in_transition", 1)
			if !deepEqual(anc, expect) {
				s.Violate("C05", "archive-records-unreported-content", "crash", "the daemon died while the transitions of a cycle were still pending, so no endpoint had reported anything for it; yet the archive on disk is %s instead of the state that cycle started from, %s", render(anc), render(expect))
			}
		}
	}
	// The archive is whole: it loads and holds only synchronizable content.
	if anc, aerr := h.loadArchive(); aerr != nil {
		if !wasTerm {
			s.Violate("C27", "archive-torn-by-crash", "archive", "after a crash the archive cannot be loaded: %v", aerr)
		}
	} else if anc != nil {
		if err := anc.EnsureValid(true); err != nil {
			s.Violate("C05", "archive-invalid-after-crash", "archive", "after a crash the archive is invalid: %v", err)
		}
	}
}

// reportHang is called when a phase ends by budget or horizon: commands and
// endpoint methods must not be stuck (C29 rule 5).
func (h *harness) reportHang(phase string, stop simkit.Stop) {
	h.mu.Lock()
	defer h.mu.Unlock()
	for _, c := range h.cmds {
		if c.ret == 0 {
			h.s.Violate("C29", "command-hang", c.kind, "%s: the %s command invoked at seq %d never returned (%v); parked gates: %v", phase, c.kind, c.invoke, stop, h.s.Parked())
		}
	}
	h.s.Count("probe.phase_not_finished", 1)
}

type pendingResult struct {
	path   string
	result *core.Entry
}

// settle drives the session to rest: a flush that may still apply changes,
// then a quiet flush that must plan nothing (C04), for sessions that can run.
func (h *harness) settle() {
	s := h.s
	ctx := context.Background()
	flush := func() error {
		s.Gate("settle", "flush")
		c, cancel := context.WithTimeout(ctx, 60*time.Second+419*time.Microsecond)
		defer cancel()
		h.mu.Lock()
		mgr := h.mgr
		h.mu.Unlock()
		return mgr.Flush(c, h.sel, "", false)
	}
	s.StopFaults()
	if h.disk != nil {
		h.disk.unfill("alpha")
		h.disk.unfill("beta")
	}
	h.mu.Lock()
	h.settling = true
	term, paused := h.terminatedSince > 0, h.pausedSince > 0
	h.mu.Unlock()
	if term || paused {
		s.Logf("settle", "session terminated=%v paused=%v: nothing to settle", term, paused)
		return
	}
	var err error
	// Up to three flushes to absorb edits that landed mid-cycle and retries
	// after injected faults (faults are exhausted by now or never match).
	okCount := 0
	for i := 0; i < 5 && okCount < 2; i++ {
		if err = flush(); err != nil {
			s.Logf("settle", "flush %d -> %v", i, err)
			okCount = 0
			time.Sleep(16*time.Second + 31*time.Microsecond)
		} else {
			okCount++
		}
	}
	if h.plan.Scenario == "model-halt" || h.plan.Scenario == "disk-halt" {
		h.haltPhase(flush)
		return
	}
	if err != nil {
		s.Logf("settle", "session cannot synchronize at rest: %v", err)
		h.mu.Lock()
		h.restError = err.Error()
		h.mu.Unlock()
		return
	}
	before, _ := os.ReadFile(h.archivePath())
	h.mu.Lock()
	// The fixpoint claim is conditional: "if every change planned by a cycle
	// is applied exactly". A last cycle that still met problems (content the
	// endpoint refuses for good, e.g. a link it considers invalid) is retried
	// forever, legitimately.
	applied := h.cycleClean
	h.quiet = applied
	h.mu.Unlock()
	err = flush()
	h.mu.Lock()
	h.quiet = false
	h.atRest = err == nil
	h.mu.Unlock()
	after, _ := os.ReadFile(h.archivePath())
	if !applied {
		s.Count("probe.settled_with_standing_problems", 1)
	}
	if applied && err == nil && string(before) != string(after) {
		s.Violate("C04", "not-a-fixpoint", "archive", "the quiet cycle rewrote the archive although nothing changed")
	}
	s.Logf("settle", "quiet flush -> %v", err)
}

// lifecycleYield emulates the controller's lifecycle lock with gates. The
// build inserts a yield site before every statement of pkg/synchronization that
// takes a lock and after every one that releases it (cmd/check/autoyield.go).
// A caller that would wait for the lifecycle lock inside sync.Mutex - where no
// simulator can see it, and where it would keep the bubble from ever becoming
// idle while the holder waits for gates of its own - waits at a gate instead,
// which is released only while the lock is free. Two callers' lifecycle commands
// can therefore overlap (one queued behind the other), in an order the scheduler
// decides.
func (h *harness) lifecycleYield(site string) {
	if !strings.HasPrefix(site, "auto:synchronization.") || !strings.Contains(site, "(c.lifecycleLock)") {
		return
	}
	s := h.s
	if strings.Contains(site, ":before-lock(") {
		if label := s.ActorLabel(); label != "" && !s.PassThrough() {
			h.mu.Lock()
			contended := h.lifecycleHeld > 0
			h.mu.Unlock()
			if contended {
				s.Count("probe.lifecycle_lock_contended", 1)
			}
			s.Gate("lk."+label, "lifecycle-lock")
		}
		h.mu.Lock()
		h.lifecycleHeld++
		h.mu.Unlock()
		return
	}
	h.mu.Lock()
	if h.lifecycleHeld > 0 {
		h.lifecycleHeld--
	}
	h.mu.Unlock()
	s.Wake()
}

// haltPhase performs the root event of the C11 scenarios and watches.
func (h *harness) haltPhase(flush func() error) {
	s := h.s
	side := "alpha"
	if h.plan.C("halt_side") == 1 {
		side = "beta"
	}
	kind := h.plan.C("halt_kind")
	anc, _ := h.loadArchive()
	h.mu.Lock()
	a, b := h.currentTree("alpha"), h.currentTree("beta")
	h.mu.Unlock()
	converged := deepEqual(syncPart(a), syncPart(b)) && deepEqual(anc, syncPart(a)) && !hasUnsync(a) && !hasUnsync(b)
	rootEntries := 0
	if anc != nil {
		rootEntries = len(anc.Contents)
	}
	st := h.state()
	if st == nil || halted(st.Status) || !converged {
		s.Logf("settle", "not converged before the root event (state %v): no expectation", st != nil)
		return
	}
	expectHalt := false
	twoWay := !h.oneWay()
	replica := h.mode == core.SynchronizationMode_SynchronizationModeOneWayReplica
	s.Gate("settle", "root-event")
	// A scan of the struck side that is under way right now (the endpoint's own
	// polling scan, parked at one of its system calls) would observe the removal
	// half-way: part of the tree gone, the root still a directory - to every
	// observer an ordinary deletion of those entries, which is propagated
	// rightly. The expectations below are for an event no scan straddles.
	for _, g := range s.Parked() {
		if strings.HasPrefix(g, "fs."+side+".") {
			s.Count("probe.root_event_skipped_scan_in_flight", 1)
			s.Logf("settle", "a scan of %s is under way (%s): no root event, no expectation", side, g)
			return
		}
	}
	// (Not for the emptying event: when the transition that is in flight then
	// creates the new file in the emptied root, the next scan finds a root with
	// one entry, which no observer can tell from a user who deleted the rest.)
	// (And only over a root with at least two entries: a scan that races with
	// the event can see the struck root as an empty directory, which is the
	// one-sided emptying case and is only guarded from two entries upwards.)
	if h.plan.C("halt_midcycle") == 1 && h.disk != nil && (kind == 0 || kind == 1) && rootEntries >= 2 {
		h.midcycleRootEvent(flush, side, kind)
		return
	}
	switch kind {
	case 0:
		// Deleting the source of a propagation direction would be propagated;
		// deleting the destination root of a one-way session is repaired.
		h.applyUserOp(simkit.Op{Kind: "rootdel", S: []string{side, ""}})
		expectHalt = anc != nil && (twoWay || side == "alpha")
	case 1:
		h.applyUserOp(simkit.Op{Kind: "rootfile", N: []int64{9999}, S: []string{side, ""}})
		expectHalt = anc != nil && anc.Kind == core.EntryKind_Directory && (twoWay || side == "alpha" || replica)
	case 2:
		if h.plan.C("halt_peer_shrinks") == 1 && rootEntries >= 2 {
			// In the same cycle the user of the other endpoint deletes all
			// entries of its root but one, by ordinary deletions: that root is
			// not emptied, this one is.
			var names []string
			for name := range anc.Contents {
				names = append(names, name)
			}
			sort.Strings(names)
			for _, name := range names[1:] {
				h.applyUserOp(simkit.Op{Kind: "del", S: []string{other(side), name}})
			}
			s.Count("probe.root_emptied_while_peer_shrank_to_one", 1)
		}
		h.applyUserOp(simkit.Op{Kind: "rootempty", S: []string{side, ""}})
		expectHalt = rootEntries >= 2
	case 3:
		h.applyUserOp(simkit.Op{Kind: "rootempty", S: []string{"alpha", ""}})
		h.applyUserOp(simkit.Op{Kind: "rootempty", S: []string{"beta", ""}})
	}
	h.mu.Lock()
	otherBefore := cloneEntry(h.currentTree(other(side)))
	if expectHalt {
		h.haltWatch = true
		h.haltWatchSide = side
		h.haltEventSeq = h.next()
	}
	h.mu.Unlock()
	s.Count(fmt.Sprintf("probe.root_event_kind_%d", kind), 1)
	for i := 0; i < 3; i++ {
		flush()
		time.Sleep(20*time.Second + 17*time.Microsecond)
	}
	st = h.state()
	h.mu.Lock()
	otherAfter := cloneEntry(h.currentTree(other(side)))
	h.mu.Unlock()
	if st == nil {
		return
	}
	h.mu.Lock()
	// (... or the cycle under way when the event struck paired a scan of this
	// side taken before it with a scan of the peer taken after its deletions.)
	staleFirst := h.haltFirstScan == 2 || h.haltStraddled
	h.mu.Unlock()
	if expectHalt && kind == 2 && h.plan.C("halt_peer_shrinks") == 1 && staleFirst {
		// The controller first worked from a snapshot of the struck root taken
		// before it was emptied (an accelerated scan hands out the last polling
		// snapshot) together with the peer's deletions: it carried those over
		// first, and by the time it saw the emptied root the last synchronized
		// state held a single entry. That is the history "the peer deleted, then
		// a root with one entry was emptied" - two concurrent user actions can be
		// observed in either order, and in this order the guard does not apply.
		s.Count("probe.peer_deletions_observed_before_emptying", 1)
		return
	}
	if expectHalt {
		s.Count("probe.halt_expected", 1)
		if !halted(st.Status) {
			s.Violate("C11", "not-halted", fmt.Sprintf("kind%d", kind), "after root event %d on %s (archive had %d root entries) the session status is %v, not halted", kind, side, rootEntries, st.Status)
		}
		if !deepEqual(otherBefore, otherAfter) {
			s.Violate("C11", "other-endpoint-changed", fmt.Sprintf("kind%d", kind), "after root event %d on %s the other endpoint changed from %s to %s", kind, side, render(otherBefore), render(otherAfter))
		}
		// It stays halted across the reconnect interval.
		time.Sleep(61*time.Second + 3*time.Microsecond)
		if st2 := h.state(); st2 != nil && !halted(st2.Status) {
			s.Violate("C11", "left-halted-state", fmt.Sprintf("kind%d", kind), "the session left the halted state on its own (status %v)", st2.Status)
		}
	} else {
		s.Count("probe.halt_not_expected", 1)
		// On real endpoints the two roots cannot be emptied atomically with
		// respect to the scans of one cycle (a snapshot taken before the event,
		// or a polling snapshot not yet refreshed, pairs with an empty one from
		// the other side, and halting is then the right answer); the control
		// expectation is only asserted where snapshots are instantaneous.
		if kind == 3 && halted(st.Status) && h.disk != nil {
			s.Count("probe.control_halted_by_straddling_scans", 1)
		}
		if kind == 3 && halted(st.Status) && h.disk == nil {
			s.Violate("C11", "halted-without-cause", fmt.Sprintf("kind%d", kind), "control root event %d (archive had %d root entries) halted the session with status %v", kind, rootEntries, st.Status)
		}
		if h.oneWay() && side == "beta" && kind != 3 && !deepEqual(otherBefore, otherAfter) {
			s.Violate("C02", "alpha-modified", "root-event", "a root event on beta changed alpha from %s to %s in mode %v", render(otherBefore), render(otherAfter), h.mode)
		}
	}
}

// midcycleRootEvent is the variant of the root event that strikes inside a
// cycle: the other side gains a new file (so the cycle has something to stage
// and create on the struck side), and the root of the struck side is deleted,
// replaced or emptied just before the Nth system call of that side's scan,
// staging or transition. The user deletes nothing else, so whatever the other
// side held at that moment must still be there afterwards: anything missing is
// a propagated root deletion.
func (h *harness) midcycleRootEvent(flush func() error, side string, kind int64) {
	s, d := h.s, h.disk
	y := other(side)
	h.applyUserOp(simkit.Op{Kind: "put", N: []int64{9998, 0}, S: []string{y, "zz-new"}})
	var mu sync.Mutex
	var before *core.Entry
	fired := false
	op := simkit.Op{Kind: "rootdel", S: []string{side, ""}}
	switch kind {
	case 1:
		op = simkit.Op{Kind: "rootfile", N: []int64{9999}, S: []string{side, ""}}
	case 2:
		op = simkit.Op{Kind: "rootempty", S: []string{side, ""}}
	}
	// (Never inside the struck side's own scan: a scan that races with the
	// removal of a tree legitimately observes part of it, and what it saw
	// missing is then an ordinary deletion to every observer.)
	activity := []string{"stage", "stage", "transition", "stage"}[h.plan.C("halt_activity")%4]
	d.mu.Lock()
	d.midcycle = &midcycleEvent{side: side, activity: activity, countdown: int(h.plan.C("halt_nth")), fire: func() {
		tree := d.walkTree(y)
		h.applyUserOp(op)
		mu.Lock()
		before, fired = tree, true
		mu.Unlock()
		s.Count("probe.midcycle_root_event_"+activity, 1)
		s.Logf("user", "root event %d on %s in the middle of its %s", kind, side, activity)
	}}
	d.mu.Unlock()
	for i := 0; i < 4; i++ {
		flush()
		time.Sleep(20*time.Second + 17*time.Microsecond)
	}
	d.mu.Lock()
	d.midcycle = nil
	d.mu.Unlock()
	mu.Lock()
	defer mu.Unlock()
	if !fired {
		return
	}
	after := d.walkTree(y)
	walk(before, "", func(p string, e *core.Entry) {
		if e.Kind == core.EntryKind_Directory || unsyncKind(e.Kind) {
			return
		}
		if got := lookup(after, p); got == nil || !shallowEqual(got, e) {
			s.Violate("C11", "content-lost-after-root-event", fmt.Sprintf("midcycle-kind%d", kind), "the root of %s was struck (event %d) in the middle of a cycle; afterwards %s lost %q (%s, now %s) although the user deleted nothing there", side, kind, y, p, render(e), render(got))
		}
	})
}

// invariant runs at every quiescent point.
func (h *harness) invariant() {
	if h.disk != nil {
		h.diskInvariant()
	}
}

// finalChecks evaluates the at-rest oracles (C04 convergence, C01 rule 3, C05).
func (h *harness) finalChecks() {
	s := h.s
	h.mu.Lock()
	atRest := h.atRest
	term := h.terminatedSince > 0
	paused := h.pausedSince > 0
	a, b := cloneEntry(h.currentTree("alpha")), cloneEntry(h.currentTree("beta"))
	h.mu.Unlock()
	if term {
		return
	}
	// C05: whatever happened, the archive file is loadable and synchronizable.
	anc, err := h.loadArchive()
	if err != nil {
		s.Violate("C05", "archive-unreadable", "archive", "archive file unreadable at rest: %v", err)
		return
	}
	if err := anc.EnsureValid(true); err != nil {
		s.Violate("C05", "archive-invalid", "archive", "archive at rest is not valid synchronizable content: %v (%s)", err, render(anc))
	}
	if paused || !atRest {
		return
	}
	st := h.state()
	if st == nil || halted(st.Status) {
		return
	}
	s.Count("probe.reached_rest", 1)
	if st.ExcludedConflicts > 0 {
		return
	}
	twoWay := h.mode == core.SynchronizationMode_SynchronizationModeTwoWaySafe || h.mode == core.SynchronizationMode_SynchronizationModeTwoWayResolved
	underConflict := func(p string) bool {
		for _, c := range st.Conflicts {
			if pathWithin(p, c.Root) {
				return true
			}
		}
		return false
	}
	unsyncAbove := func(t *core.Entry, p string) bool {
		// Untracked/problematic at p or at one of its ancestors on that side.
		for q := p; ; q = parentPath(q) {
			if e := lookup(t, q); e != nil && (e.Kind == core.EntryKind_Untracked || e.Kind == core.EntryKind_Problematic) {
				return true
			}
			if q == "" {
				return false
			}
		}
	}
	if twoWay {
		paths := map[string]bool{}
		walk(a, "", func(p string, _ *core.Entry) { paths[p] = true })
		walk(b, "", func(p string, _ *core.Entry) { paths[p] = true })
		var sorted []string
		for p := range paths {
			sorted = append(sorted, p)
		}
		sort.Strings(sorted)
		for _, p := range sorted {
			ea, eb := lookup(a, p), lookup(b, p)
			if underConflict(p) || unsyncAbove(a, p) || unsyncAbove(b, p) {
				continue
			}
			if h.plan.C("docker_ignores") == 2 && (p == "a/gen" || strings.HasPrefix(p, "a/gen/")) {
				// Whether the masked directory itself is tracked depends on both
				// sides and the ancestor; this scenario is judged by the
				// per-cycle fixpoint rule, not by the reference walk.
				continue
			}
			if st.AlphaState != nil && len(st.AlphaState.TransitionProblems)+len(st.BetaState.TransitionProblems) > 0 {
				continue
			}
			if !shallowEqual(ea, eb) && (h.preserve["alpha"] && h.preserve["beta"]) {
				s.Violate("C04", "not-converged", "rest", "mode %v at rest: %q is %s on alpha and %s on beta, outside any reported conflict (conflicts: %d) - alpha %s beta %s", h.mode, p, render(ea), render(eb), len(st.Conflicts), render(a), render(b))
				break
			}
			if shallowEqual(ea, eb) && !shallowEqual(lookup(anc, p), ea) && h.preserve["alpha"] && h.preserve["beta"] {
				s.Violate("C04", "archive-differs-at-rest", "rest", "at rest both endpoints hold %s at %q but the archive records %s", render(ea), p, render(lookup(anc, p)))
				break
			}
		}
		s.Count("probe.convergence_checked", 1)
	}
	if h.disk != nil && !h.modelSide["alpha"] && !h.modelSide["beta"] {
		h.disk.checkAttribution(a, b, st, underConflict)
	}
	// C01 rule 3: differing non-archived content at the same path is reported
	// as a conflict (two-way-safe) - never silently left or resolved.
	if h.mode == core.SynchronizationMode_SynchronizationModeTwoWaySafe {
		walk(a, "", func(p string, ea *core.Entry) {
			eb := lookup(b, p)
			if ea.Kind == core.EntryKind_Directory || eb == nil || eb.Kind == core.EntryKind_Directory || unsyncKind(ea.Kind) || unsyncKind(eb.Kind) {
				return
			}
			if !shallowEqual(ea, eb) && !underConflict(p) && !unsyncAbove(a, p) && !unsyncAbove(b, p) && h.preserve["alpha"] && h.preserve["beta"] {
				s.Violate("C01", "disagreement-not-reported", "rest", "at rest %q holds %s on alpha and %s on beta and no conflict covers it", p, render(ea), render(eb))
			}
		})
	}
}

// execOutcomeEnumeration decides C05 by enumeration for one seeded history: a
// fault-free execution counts the changes each endpoint is asked to apply;
// then the same history is re-executed once per (endpoint, change index,
// outcome class) with exactly that change receiving the outcome.
func execOutcomeEnumeration(t *testing.T, plan *simkit.Plan) *simkit.Result {
	base := plan.Clone()
	base.Scenario = "model-outcomes"
	base.Faults = nil
	first := execSession(t, base)
	if first.Trouble != "" || len(first.Violations) > 0 {
		first.Fingerprint = simkit.Digest(first.JournalHash, "enum")
		return first
	}
	total := &simkit.Result{Seed: plan.Seed, Counters: map[string]int64{}, NonTrivial: first.NonTrivial, JournalTail: first.JournalTail}
	merge := func(r *simkit.Result) {
		for k, v := range r.Counters {
			total.Counters[k] += v
		}
		total.Steps += r.Steps
		total.SimNanos += r.SimNanos
		for _, v := range r.Violations {
			dup := false
			for _, w := range total.Violations {
				if w.Property == v.Property && w.Rule == v.Rule && w.Class == v.Class {
					dup = true
				}
			}
			if !dup {
				total.Violations = append(total.Violations, v)
				total.JournalTail = r.JournalTail
			}
		}
		if r.Trouble != "" {
			total.Trouble = r.Trouble
		}
	}
	merge(first)
	budget := int(plan.C("enum_cap"))
	hashes := first.JournalHash
	for _, side := range []string{"alpha", "beta"} {
		n := int(first.Counters["probe.changes_applied_"+side])
		for pos := 1; pos <= n && budget > 0; pos++ {
			for class := int64(1); class <= 4 && budget > 0; class++ {
				p := base.Clone()
				p.Sched = nil
				p.SchedClosed = false
				// Arg encodes the class in its residue mod 5 and a mask seed.
				p.Faults = []simkit.Fault{{Kind: "outcome", Key: side, Nth: pos, Arg: class + 5*int64((uint64(plan.C("enum_seed"))+uint64(pos*7))%60)}}
				r := execSession(t, p)
				merge(r)
				total.Counters["enum.outcome_positions"]++
				hashes += r.JournalHash
				budget--
				if len(total.Violations) > 0 || total.Trouble != "" {
					total.Fingerprint = simkit.Digest(hashes)
					total.JournalHash = r.JournalHash
					return total
				}
			}
		}
	}
	total.JournalHash = simkit.Digest(hashes)
	total.Fingerprint = total.JournalHash
	return total
}
