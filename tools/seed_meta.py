#!/usr/bin/env python3
"""Writes seeded/<name>/meta.json and seeded/README.md from seeded/index.json (+ verify.json, + last tryseed results)."""
import json, os
root = '/verif/seeded'
idx = json.load(open(f'{root}/index.json'))
lines = ['# Seeded property-breaking changes', '',
 'Each directory holds a change to mutagen produced by a sub-agent that was given only the property text and a',
 'scratch worktree (nothing from /verif): `patch.diff` (apply with `git -C /repo apply`), the agent\'s demonstration',
 '(`demo/`, test files to copy into the tree), its `NOTES.md`, `verify.json` (my own confirmation in a scratch',
 'worktree: builds, pinned baseline tests pass with the change, demonstration fails with it and passes without it;',
 'written by `tools/verify_seed.sh`) and `meta.json`. None of these is ever committed in /repo.',
 'To evaluate one: `tools/tryseed.sh /verif/seeded/<name>/patch.diff <property> [budget-seconds] [more properties]`.', '',
 '| change | property | caught by (rule) | first run | strengthening made |', '|---|---|---|---|---|']
for e in idx:
    d = f"{root}/{e['name']}"
    if not os.path.isdir(d):
        continue
    meta = dict(e)
    meta['what_i_ran'] = [f"tools/verify_seed.sh {e['name']}"] + [f"tools/tryseed.sh /verif/seeded/{e['name']}/patch.diff {c['check']} 25" for c in e['caught_by']] + ["git -C /repo checkout -- ."]
    if os.path.exists(f'{d}/verify.json'):
        meta['verification'] = json.load(open(f'{d}/verify.json'))
    json.dump(meta, open(f'{d}/meta.json', 'w'), indent=1)
    cb = '; '.join(f"{c['check']} ({c['rule']})" for c in e['caught_by']) or '**not caught**'
    lines.append(f"| {e['name']} | {e['property']} | {cb} | {e['first_run']} | {e['strengthening'] or '-'} |")
open(f'{root}/README.md', 'w').write('\n'.join(lines) + '\n')
print(len(idx), 'entries')
