package muxsim

import (
	"bytes"
	"errors"
	"fmt"
	"io"

	"github.com/mutagen-io/mutagen/pkg/multiplexing/ring"

	"verif/simkit"
)

// genRing draws a ring-buffer operation sequence. Arguments of the peer's
// behaviour (short counts, errors) are part of each op.
func genRing(p *simkit.Plan, r *simkit.Rand, tier string) {
	capacity := simkit.Pick(r, []int{0, 1, 2, 3, 4, 5, 8, 8, 16, 100})
	p.Cfg["capacity"] = int64(capacity)
	n := r.Range(1, 60)
	if tier == "thorough" {
		n = r.Range(1, 300)
	}
	m := capacity + 3
	for i := 0; i < n; i++ {
		switch r.Intn(8) {
		case 0:
			p.Ops = append(p.Ops, simkit.Op{Actor: "c", Kind: "write", N: []int64{int64(r.Range(0, m))}})
		case 1:
			p.Ops = append(p.Ops, simkit.Op{Actor: "c", Kind: "writebyte"})
		case 2:
			p.Ops = append(p.Ops, simkit.Op{Actor: "c", Kind: "read", N: []int64{int64(r.Range(0, m))}})
		case 3:
			p.Ops = append(p.Ops, simkit.Op{Actor: "c", Kind: "readbyte"})
		case 4, 5:
			// readnfrom n, with a reader holding `have` bytes, returning at
			// most `short` per call, and ending with mode (0 nil-then-EOF,
			// 1 n+EOF together, 2 error after `have` bytes, 3 the last bytes
			// together with a non-EOF error, as the io.Reader contract allows).
			p.Ops = append(p.Ops, simkit.Op{Actor: "c", Kind: "readnfrom", N: []int64{int64(r.Range(0, m)), int64(r.Range(0, m+2)), int64(r.Range(1, 4)), int64(r.Intn(4))}})
		case 6:
			// writeto a writer accepting at most `short` per call and failing
			// after `limit` bytes (-1 never).
			p.Ops = append(p.Ops, simkit.Op{Actor: "c", Kind: "writeto", N: []int64{int64(r.Range(1, 4)), int64(r.Range(-1, m))}})
		default:
			if r.Chance(1, 4) {
				p.Ops = append(p.Ops, simkit.Op{Actor: "c", Kind: "reset"})
			} else {
				p.Ops = append(p.Ops, simkit.Op{Actor: "c", Kind: "write", N: []int64{int64(r.Range(0, m))}})
			}
		}
	}
}

var errPeer = errors.New("injected peer failure")

// peerReader hands out `have` bytes in short reads and then ends per mode.
type peerReader struct {
	data     []byte
	short    int
	mode     int
	consumed int
	calls    int
}

func (p *peerReader) Read(b []byte) (int, error) {
	p.calls++
	if len(p.data) == 0 {
		if p.mode == 2 || p.mode == 3 {
			return 0, errPeer
		}
		return 0, io.EOF
	}
	n := min(len(b), len(p.data), p.short)
	copy(b, p.data[:n])
	p.data = p.data[n:]
	p.consumed += n
	if len(p.data) == 0 && p.mode == 1 {
		return n, io.EOF
	}
	if len(p.data) == 0 && p.mode == 3 {
		return n, errPeer
	}
	return n, nil
}

// peerWriter accepts short writes and fails after limit bytes.
type peerWriter struct {
	got   bytes.Buffer
	short int
	limit int
}

func (p *peerWriter) Write(b []byte) (int, error) {
	n := min(len(b), p.short)
	if p.limit >= 0 {
		room := p.limit - p.got.Len()
		if room <= 0 {
			return 0, errPeer
		}
		if n > room {
			p.got.Write(b[:room])
			return room, errPeer
		}
	}
	p.got.Write(b[:n])
	return n, nil
}

// execRing decides C26: the real ring.Buffer against a slice-backed bounded
// FIFO, operation by operation, with exact accounting of what the connected
// reader/writer handed over or received.
func execRing(plan *simkit.Plan) *simkit.Result {
	res := simkit.RunPlain(plan, func(s *simkit.Sim) {
		capacity := int(plan.C("capacity"))
		buf := ring.NewBuffer(capacity)
		var model []byte
		next := byte(1)
		fresh := func(n int) []byte {
			b := make([]byte, n)
			for i := range b {
				b[i] = next
				next++
				if next == 0 {
					next = 1
				}
			}
			return b
		}
		bad := func(rule, op string, format string, args ...any) {
			s.Violate("C26", rule, op, "capacity %d, model holds %d bytes: "+format, append([]any{capacity, len(model)}, args...)...)
		}
		for i, op := range plan.Ops {
			free := capacity - len(model)
			switch op.Kind {
			case "write":
				data := fresh(int(op.Int(0)))
				n, err := buf.Write(data)
				want := min(len(data), free)
				var wantErr error
				if want < len(data) {
					wantErr = ring.ErrBufferFull
				}
				if n != want || err != wantErr {
					bad("write-result", "Write", "op %d Write(%d bytes) returned (%d, %v), model expects (%d, %v)", i, len(data), n, err, want, wantErr)
				}
				model = append(model, data[:want]...)
				if wantErr != nil {
					s.Count("probe.ring_full", 1)
				}
			case "writebyte":
				b := fresh(1)[0]
				err := buf.WriteByte(b)
				if free == 0 {
					if err != ring.ErrBufferFull {
						bad("writebyte-result", "WriteByte", "op %d WriteByte on full buffer returned %v", i, err)
					}
					s.Count("probe.ring_full", 1)
				} else {
					if err != nil {
						bad("writebyte-result", "WriteByte", "op %d WriteByte with %d free returned %v", i, free, err)
					}
					model = append(model, b)
				}
			case "read":
				out := make([]byte, op.Int(0))
				n, err := buf.Read(out)
				want := min(len(out), len(model))
				var wantErr error
				if len(out) > 0 && len(model) == 0 {
					wantErr = io.EOF
					s.Count("probe.ring_empty", 1)
				}
				if n != want || err != wantErr {
					bad("read-result", "Read", "op %d Read(%d) returned (%d, %v), model expects (%d, %v)", i, len(out), n, err, want, wantErr)
				}
				if n >= 0 && n <= len(out) && !bytes.Equal(out[:min(n, want)], model[:min(n, want)]) {
					bad("read-data", "Read", "op %d Read returned %v, model expects %v", i, out[:n], model[:want])
				}
				model = model[want:]
			case "readbyte":
				b, err := buf.ReadByte()
				if len(model) == 0 {
					if err != io.EOF {
						bad("readbyte-result", "ReadByte", "op %d ReadByte on empty buffer returned (%d, %v)", i, b, err)
					}
					s.Count("probe.ring_empty", 1)
				} else {
					if err != nil || b != model[0] {
						bad("readbyte-result", "ReadByte", "op %d ReadByte returned (%d, %v), model expects %d", i, b, err, model[0])
					}
					model = model[1:]
				}
			case "readnfrom":
				want, have, short, mode := int(op.Int(0)), int(op.Int(1)), int(op.Int(2)), int(op.Int(3))
				data := fresh(have)
				pr := &peerReader{data: append([]byte(nil), data...), short: max(short, 1), mode: mode}
				n, err := buf.ReadNFrom(pr, want)
				// Model: up to min(want, free, have) bytes are taken.
				take := min(want, free, have)
				if n != take {
					bad("readnfrom-count", "ReadNFrom", "op %d ReadNFrom(n=%d) from a reader with %d bytes (short %d, mode %d) returned n=%d, model expects %d", i, want, have, short, mode, n, take)
				}
				if pr.consumed != max(n, 0) {
					bad("readnfrom-accounting", "ReadNFrom", "op %d ReadNFrom reported %d bytes but consumed %d from the reader", i, n, pr.consumed)
				}
				model = append(model, data[:min(take, len(data))]...)
				// Error expectations.
				switch {
				case take == want && mode == 3 && have == want:
					// The reader handed over the last requested bytes together
					// with its error: the request is complete, and surfacing the
					// error or not are both accurate.
					if err != nil && err != errPeer {
						bad("readnfrom-error", "ReadNFrom", "op %d ReadNFrom read all %d requested bytes and returned %v", i, want, err)
					}
					s.Count("probe.ring_data_with_error", 1)
				case take == want:
					if err != nil {
						bad("readnfrom-error", "ReadNFrom", "op %d ReadNFrom read all %d requested bytes but returned %v", i, want, err)
					}
				case take == free && free < want && (have > free || (mode == 0 && have == free)):
					// Buffer filled before the request was satisfied while the
					// reader had not reported its end yet.
					if err != ring.ErrBufferFull {
						bad("readnfrom-error", "ReadNFrom", "op %d ReadNFrom filled the buffer with %d of %d requested bytes and returned %v, expected ErrBufferFull", i, take, want, err)
					}
					s.Count("probe.ring_full", 1)
				case take == free && free < want:
					// Reader ended exactly when the buffer filled: either
					// report is accurate.
					if err == nil {
						bad("readnfrom-error", "ReadNFrom", "op %d ReadNFrom took %d of %d requested bytes and returned nil", i, take, want)
					}
				default:
					// Reader ran out first.
					wantErr := io.EOF
					if mode == 2 || mode == 3 {
						wantErr = errPeer
					}
					if mode == 3 && take > 0 {
						s.Count("probe.ring_data_with_error", 1)
					}
					if err != wantErr {
						bad("readnfrom-error", "ReadNFrom", "op %d ReadNFrom got %d of %d requested bytes from a reader that ended (mode %d) and returned %v, expected %v", i, take, want, mode, err, wantErr)
					}
				}
			case "writeto":
				short, limit := int(op.Int(0)), int(op.Int(1))
				pw := &peerWriter{short: max(short, 1), limit: limit}
				n, err := buf.WriteTo(pw)
				want := len(model)
				var wantErr error
				if limit >= 0 && limit < len(model) {
					want = limit
					wantErr = errPeer
				}
				if int(n) != want || err != wantErr {
					bad("writeto-result", "WriteTo", "op %d WriteTo(short %d, limit %d) returned (%d, %v), model expects (%d, %v)", i, short, limit, n, err, want, wantErr)
				}
				if !bytes.Equal(pw.got.Bytes(), model[:min(want, len(model))]) {
					bad("writeto-data", "WriteTo", "op %d WriteTo delivered %v, model expects %v", i, pw.got.Bytes(), model[:want])
				}
				model = model[min(want, len(model)):]
			case "reset":
				buf.Reset()
				model = model[:0]
			}
			if buf.Used() != len(model) || buf.Free() != capacity-len(model) || buf.Size() != capacity {
				bad("occupancy", op.Kind, "after op %d (%s): Used=%d Free=%d Size=%d, model used %d", i, op.Kind, buf.Used(), buf.Free(), buf.Size(), len(model))
				return
			}
			if s.Violated() {
				return
			}
		}
		// Final content check.
		rest := make([]byte, len(model)+1)
		n, _ := buf.Read(rest)
		if !bytes.Equal(rest[:max(n, 0)], model) {
			bad("final-content", "Read", "remaining content %v, model expects %v", rest[:n], model)
		}
		s.Logf("ring", "%d ops ok", len(plan.Ops))
	})
	res.NonTrivial = len(plan.Ops) >= 3
	res.Fingerprint = simkit.Digest(fmt.Sprint(plan.Cfg), fmt.Sprint(plan.Ops))
	return res
}
