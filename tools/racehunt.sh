#!/bin/sh
# usage: racehunt.sh [budget]  - runs every check with a race-detector build of its engine (maintenance: finds
# data races in the harness itself). Evidence files are preserved.
cd "$(dirname "$0")/.."; budget=${1:-8}
mkdir -p /tmp/racehunt-ev; cp evidence/*.json /tmp/racehunt-ev/
for id in $(jq -r '.checks[].property_id' MANIFEST.json); do
  out=$(VERIF_RACE=1 ./bin/check $id --budget $budget 2>&1); code=$?
  echo "$id exit=$code :: $(echo "$out" | tail -1 | cut -c1-160)"
  echo "$out" | grep -A25 "DATA RACE" | head -60
  [ $code -ne 0 ] && echo "$out" | head -30
done
cp /tmp/racehunt-ev/*.json evidence/; rm -rf /tmp/racehunt-ev
