//go:build verifruntime

package simkit

import _ "unsafe" // for go:linkname

// With the runtime overlay (overlay/README.md) the order in which a select
// statement polls its ready cases is a function of this seed, of the statement
// and of the number of times the statement has run, instead of the per-thread
// random state of the Go runtime.
//
//go:linkname runtimeVerifSelectReset runtime.verifSelectReset
func runtimeVerifSelectReset(seed uint64)

func setRuntimeSeed(seed uint64) { runtimeVerifSelectReset(seed) }

// RuntimeOverlay reports whether this binary was built with the runtime overlay.
const RuntimeOverlay = true
