#!/bin/sh
# usage: tryseed_other.sh <seed-name> <property> [budget]
# Like tryseed.sh, and also prints which rules of OTHER properties fired (a change can be seen by the
# machinery without being attributed to the property whose check is run).
name=$1; prop=$2; budget=${3:-20}
cd /verif
patch=/verif/seeded/$name/patch.diff
git -C /repo apply --check "$patch" 2>/dev/null || { echo "PATCH DOES NOT APPLY"; exit 3; }
[ -f evidence/$prop.json ] && cp evidence/$prop.json /tmp/tso-$prop.json
git -C /repo apply "$patch"
out=$(./bin/check $prop --budget $budget 2>&1); code=$?
echo "== $name $prop exit=$code"; echo "$out" | grep -m2 "rule=\|TROUBLE" | cut -c1-200; echo "$out" | tail -1 | cut -c1-160
jq -c '.coverage.other_property_violations_seen' evidence/$prop.json | cut -c1-700
git -C /repo checkout -- .
[ -f /tmp/tso-$prop.json ] && mv /tmp/tso-$prop.json evidence/$prop.json
