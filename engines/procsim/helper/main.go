// Command helper is one simulated daemon process of procsim: it does nothing on
// its own; it executes the commands the simulator sends on standard input, one
// per line, and answers each with one line on standard output.
package main

import (
	"bufio"
	"fmt"
	"os"
	"runtime"
	"strings"
	"time"

	"github.com/mutagen-io/mutagen/pkg/daemon"
	"github.com/mutagen-io/mutagen/pkg/verif"
)

type lockResult struct {
	lock *daemon.Lock
	err  error
}

func main() {
	var lock *daemon.Lock
	var pending chan lockResult
	var pendingProceed chan struct{}
	in := bufio.NewScanner(os.Stdin)
	out := bufio.NewWriter(os.Stdout)
	reply := func(format string, args ...any) {
		fmt.Fprintf(out, format+"\n", args...)
		out.Flush()
	}
	reply("ready %d", os.Getpid())
	for in.Scan() {
		fields := strings.Fields(in.Text())
		if len(fields) == 0 {
			continue
		}
		switch fields[0] {
		case "acquire":
			if lock != nil {
				reply("already")
				continue
			}
			l, err := daemon.AcquireLock()
			if err != nil {
				reply("denied %v", err)
			} else {
				lock = l
				reply("acquired")
			}
		case "acquire-begin":
			// Run AcquireLock up to the point where the lock file is open but
			// the lock system call has not been made, and stop there.
			if lock != nil || pending != nil {
				reply("already")
				continue
			}
			reached, proceed := make(chan struct{}), make(chan struct{})
			verif.YieldHook = func(site string) {
				if site == "locking.lock" {
					close(reached)
					<-proceed
				}
			}
			result := make(chan lockResult, 1)
			go func() {
				l, err := daemon.AcquireLock()
				result <- lockResult{l, err}
			}()
			select {
			case <-reached:
				pending, pendingProceed = result, proceed
				reply("paused")
			case r := <-result:
				verif.YieldHook = nil
				if r.err != nil {
					reply("denied %v", r.err)
				} else {
					lock = r.lock
					reply("acquired")
				}
			}
		case "acquire-finish":
			if pending == nil {
				reply("notpending")
				continue
			}
			close(pendingProceed)
			r := <-pending
			pending, pendingProceed = nil, nil
			verif.YieldHook = nil
			if r.err != nil {
				reply("denied %v", r.err)
			} else {
				lock = r.lock
				reply("acquired")
			}
		case "release":
			if lock == nil {
				reply("notheld")
				continue
			}
			err := lock.Release()
			lock = nil
			if err != nil {
				reply("error %v", err)
			} else {
				reply("released")
			}
		case "journal":
			// Append a two-part record while believing to hold the lock; the
			// parent checks that records never interleave.
			f, err := os.OpenFile(fields[1], os.O_APPEND|os.O_WRONLY|os.O_CREATE, 0o600)
			if err != nil {
				reply("error %v", err)
				continue
			}
			fmt.Fprintf(f, "begin %s\n", fields[2])
			fmt.Fprintf(f, "end %s\n", fields[2])
			f.Close()
			reply("journaled")
		case "gc":
			// A garbage collection with its finalizers, at a point the
			// simulator chooses (file descriptors of unreachable os.File
			// values are closed here).
			runtime.GC()
			done := make(chan struct{})
			runtime.SetFinalizer(new([16]byte), func(*[16]byte) { close(done) })
			runtime.GC()
			select {
			case <-done:
			case <-time.After(2 * time.Second):
			}
			runtime.GC()
			reply("collected")
		case "exit":
			reply("bye")
			return
		}
	}
}
