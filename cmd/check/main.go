// Command check is the orchestrator behind every MANIFEST command:
//
//	check <property> [--tier quick|thorough] [--workers N] [--budget SEC] [--scenario S]
//	check <property> --replay <file>
//	check selfcheck <property> [--runs N]
//
// It rebuilds the engine's test binary from /repo's working tree with the
// verif tag, runs seeded worker processes (GOMAXPROCS=1 each), confirms every
// finding by replaying its minimised plan in a fresh process, applies
// known_findings.json, writes evidence/<id>.json and exits 0 / 1 / 2.
package main

import (
	"encoding/json"
	"flag"
	"fmt"
	"os"
	"os/exec"
	"path/filepath"
	"sort"
	"strconv"
	"strings"
	"sync"
	"syscall"
	"time"

	"verif/simkit"
)

const goTool = "go1.26.8"

func verifDir() string {
	if d := os.Getenv("VERIF_DIR"); d != "" {
		return d
	}
	exe, err := os.Executable()
	if err == nil {
		d := filepath.Dir(filepath.Dir(exe))
		if _, err := os.Stat(filepath.Join(d, "properties.jsonl")); err == nil {
			return d
		}
	}
	wd, _ := os.Getwd()
	return wd
}

func goEnv() []string {
	env := os.Environ()
	cgo := "CGO_ENABLED=0"
	if raceBuild() {
		cgo = "CGO_ENABLED=1"
	}
	env = append(env, "GOFLAGS=-mod=mod", "GOPROXY=off", "GOSUMDB=off", "GOTOOLCHAIN=local", cgo)
	return env
}

var cleanup []string

// exit removes scratch directories and terminates.
func exit(code int) {
	for _, d := range cleanup {
		unmountBelow(d)
		os.RemoveAll(d)
	}
	os.Exit(code)
}

// unmountBelow detaches every filesystem a worker mounted beneath dir (roots on
// their own small tmpfs) and did not get to unmount itself (killed by the watchdog).
func unmountBelow(dir string) {
	data, err := os.ReadFile("/proc/self/mounts")
	if err != nil {
		return
	}
	for _, line := range strings.Split(string(data), "\n") {
		f := strings.Fields(line)
		if len(f) >= 2 && strings.HasPrefix(f[1], dir+"/") {
			syscall.Unmount(f[1], 2 /* MNT_DETACH */)
		}
	}
}

func trouble(format string, args ...any) {
	fmt.Printf("TROUBLE: "+format+"\n", args...)
	exit(2)
}

// raceBuild: VERIF_RACE=1 builds the engine with the race detector (a maintenance
// mode used to hunt data races in the harness itself; never used by MANIFEST commands).
func raceBuild() bool { return os.Getenv("VERIF_RACE") == "1" }

// overlayState describes the build overlay of this run (for the evidence file).
var overlayState string

func buildEngine(root, engine string) string {
	out := filepath.Join(root, ".build", engine+".test")
	os.MkdirAll(filepath.Dir(out), 0o755)
	// The harness module needs /repo's go.sum entries.
	tags, extra := "verif", []string{}
	if js, why := prepareOverlay(root); js != "" {
		tags, extra = "verif verifruntime", []string{"-overlay", js}
		overlayState = "active: seeded select order and map iteration (five runtime files patched at build time), automatic yield sites in copies of pkg/state, pkg/prompting, pkg/synchronization and pkg/filesystem/locking of the current tree"
	} else {
		fmt.Printf("note: engines built without the runtime overlay (%s)\n", why)
		overlayState = "not active (" + why + ")"
	}
	args := append([]string{"test", "-c", "-tags", tags}, extra...)
	if raceBuild() {
		out = filepath.Join(root, ".build", engine+".race.test")
		args = append(args, "-race")
	}
	args = append(args, "-o", out, "./engines/"+engine)
	cmd := exec.Command(goTool, args...)
	cmd.Dir = root
	cmd.Env = goEnv()
	if b, err := cmd.CombinedOutput(); err != nil {
		fmt.Printf("%s\n", b)
		trouble("build of engine %s against /repo failed: %v", engine, err)
	}
	return out
}

type knownFinding struct {
	Status      string `json:"status"` // known | fixed
	Property    string `json:"property"`
	Rule        string `json:"rule"`
	Class       string `json:"class"`
	Description string `json:"description"`
	Commit      string `json:"commit,omitempty"`
}

func loadKnown(root string) []knownFinding {
	var k []knownFinding
	if err := simkit.ReadJSON(filepath.Join(root, "known_findings.json"), &k); err != nil && !os.IsNotExist(err) {
		trouble("cannot read known_findings.json: %v", err)
	}
	return k
}

type workerRun struct {
	job  simkit.Job
	out  *simkit.WorkerOut
	exit int
	log  string
}

func runWorker(bin string, job simkit.Job, dir string, timeout time.Duration) workerRun {
	jobPath := filepath.Join(dir, fmt.Sprintf("job-%d-%s.json", job.Worker, job.Mode))
	job.Out = filepath.Join(dir, fmt.Sprintf("out-%d-%s.json", job.Worker, job.Mode))
	os.Remove(job.Out)
	if err := simkit.WriteJSON(jobPath, job); err != nil {
		trouble("cannot write job: %v", err)
	}
	cmd := exec.Command(bin, "-test.run", "^TestWorker$", "-test.timeout", "0", "-test.count", "1")
	cmd.Dir = dir
	cmd.Env = append(os.Environ(), "VERIF_JOB="+jobPath, "GOMAXPROCS="+gomaxprocs(job), "MUTAGEN_DATA_DIRECTORY="+filepath.Join(dir, fmt.Sprintf("data-%d", job.Worker)))
	logPath := filepath.Join(dir, fmt.Sprintf("log-%d-%s.txt", job.Worker, job.Mode))
	lf, _ := os.Create(logPath)
	cmd.Stdout, cmd.Stderr = lf, lf
	wr := workerRun{job: job}
	if err := cmd.Start(); err != nil {
		trouble("cannot start worker: %v", err)
	}
	done := make(chan error, 1)
	go func() { done <- cmd.Wait() }()
	var err error
	select {
	case err = <-done:
	case <-time.After(timeout):
		cmd.Process.Kill()
		<-done
		wr.exit = 3
		err = fmt.Errorf("worker exceeded %v", timeout)
	}
	lf.Close()
	if err != nil && wr.exit == 0 {
		if ee, ok := err.(*exec.ExitError); ok {
			wr.exit = ee.ExitCode()
		} else {
			wr.exit = 2
		}
	}
	if b, e := os.ReadFile(logPath); e == nil {
		if os.Getenv("VERIF_KEEPLOG") != "" {
			os.WriteFile(filepath.Join(os.Getenv("VERIF_KEEPLOG"), filepath.Base(logPath)), b, 0o644)
		}
		if len(b) > 6000 {
			b = append(b[:3000:3000], append([]byte("\n...\n"), b[len(b)-3000:]...)...)
		}
		wr.log = string(b)
	}
	var out simkit.WorkerOut
	if e := simkit.ReadJSON(job.Out, &out); e == nil {
		wr.out = &out
	}
	return wr
}

func gomaxprocs(job simkit.Job) string {
	if v := os.Getenv("VERIF_GOMAXPROCS"); v != "" {
		return v
	}
	return "1"
}

type evidence struct {
	PropertyID  string         `json:"property_id"`
	Tier        string         `json:"tier"`
	Seed        int64          `json:"seed"`
	Level       string         `json:"level"`
	Coverage    map[string]any `json:"coverage"`
	Assumptions []string       `json:"assumptions"`
	WallS       float64        `json:"wall_s"`
	Violations  int            `json:"violations"`
}

func main() {
	if len(os.Args) < 2 {
		fmt.Println("usage: check <property> [--tier quick|thorough] | check <property> --replay <file> | check selfcheck <property>")
		exit(2)
	}
	root := verifDir()
	args := os.Args[1:]
	if args[0] == "manifest" {
		writeManifest(root)
		return
	}
	self := false
	if args[0] == "selfcheck" {
		self = true
		args = args[1:]
	}
	prop := args[0]
	fs := flag.NewFlagSet("check", flag.ExitOnError)
	tier := fs.String("tier", envOr("VERIF_TIER", "quick"), "quick or thorough")
	replay := fs.String("replay", "", "replay file")
	workers := fs.Int("workers", 16, "worker processes")
	budget := fs.Float64("budget", 0, "per-worker exploration budget in seconds (0 = tier default)")
	scenario := fs.String("scenario", "", "restrict to one scenario")
	runs := fs.Int("runs", 0, "max runs per worker (0 = until budget)")
	noShrink := fs.Bool("noshrink", false, "do not minimise findings")
	exact := fs.Uint64("exactseed", 0, "execute exactly this run seed (debugging)")
	fs.Parse(args[1:])
	spec, ok := properties[prop]
	if !ok {
		trouble("unknown or unclaimed property %q", prop)
	}
	seed := int64(1)
	if *tier == "thorough" {
		seed = 1000003
	}
	if v := os.Getenv("VERIF_SEED"); v != "" {
		if n, err := strconv.ParseInt(v, 0, 64); err == nil {
			seed = n
		} else if u, err := strconv.ParseUint(v, 0, 64); err == nil {
			seed = int64(u)
		}
	}
	start := time.Now()
	bin := buildEngine(root, spec.Engine)
	if spec.Engine == "procsim" {
		// The helper process links the real daemon lock from /repo.
		helper := filepath.Join(root, ".build", "procsim-helper")
		args := []string{"build", "-tags", "verif"}
		if js, _ := prepareOverlay(root); js != "" {
			// (the same instrumented copies as the engine: automatic yield sites)
			args = append(args, "-overlay", js)
		}
		cmd := exec.Command(goTool, append(args, "-o", helper, "./engines/procsim/helper")...)
		cmd.Dir = root
		cmd.Env = goEnv()
		if b, err := cmd.CombinedOutput(); err != nil {
			fmt.Printf("%s\n", b)
			trouble("build of the procsim helper failed: %v", err)
		}
		os.Setenv("VERIF_HELPER", helper)
	}
	dir, err := simkit.MkdirTemp(shm(), "verif-check-"+prop+"-")
	if err != nil {
		trouble("cannot create job directory: %v", err)
	}
	cleanup = append(cleanup, dir)

	if *replay != "" {
		exit(doReplay(root, bin, dir, prop, *replay))
	}
	if self {
		exit(doSelfcheck(bin, dir, prop, *tier, uint64(seed), *runs, *scenario, *exact))
	}

	b := *budget
	if b == 0 {
		b = spec.QuickSec
		if *tier == "thorough" {
			b = spec.ThoroughSec
		}
	}
	// Long budgets are served by several worker processes in a row per slot
	// (fresh address space every two minutes: crashed incarnations of the
	// simulated daemon leave their frozen goroutines and heaps behind for good).
	rounds := 1
	if b > 150 && *exact == 0 && *runs == 0 {
		rounds = int((b + 119) / 120)
	}
	var wg sync.WaitGroup
	results := make([]workerRun, *workers*rounds)
	for w := 0; w < *workers; w++ {
		wg.Add(1)
		go func(w int) {
			defer wg.Done()
			for k := 0; k < rounds; k++ {
				job := simkit.Job{Property: prop, Tier: *tier, Mode: "explore", SeedBase: uint64(seed), Worker: w + k**workers, Workers: *workers * rounds,
					MaxRuns: *runs, BudgetSec: b / float64(rounds), Scenario: *scenario, NoShrink: *noShrink, ExactSeed: *exact}
				results[w+k**workers] = runWorker(bin, job, dir, time.Duration(b/float64(rounds)*float64(time.Second))*6+10*time.Minute)
			}
		}(w)
	}
	wg.Wait()

	// Aggregate.
	agg := &simkit.WorkerOut{Counters: map[string]int64{}, PerScenario: map[string]int{}, OtherProps: map[string]int{}}
	fps := map[string]bool{}
	var findings []simkit.Finding
	var troubles []string
	for _, r := range results {
		if r.out == nil {
			troubles = append(troubles, fmt.Sprintf("worker %d produced no output (exit %d):\n%s", r.job.Worker, r.exit, r.log))
			continue
		}
		o := r.out
		agg.Runs += o.Runs
		agg.NonTrivial += o.NonTrivial
		agg.SimSeconds += o.SimSeconds
		agg.Steps += o.Steps
		for k, v := range o.Counters {
			agg.Counters[k] += v
		}
		for k, v := range o.PerScenario {
			agg.PerScenario[k] += v
		}
		for k, v := range o.OtherExamples {
			if agg.OtherExamples == nil {
				agg.OtherExamples = map[string]string{}
			}
			if _, ok := agg.OtherExamples[k]; !ok {
				agg.OtherExamples[k] = v
			}
		}
		for k, v := range o.OtherProps {
			agg.OtherProps[k] += v
		}
		for _, f := range o.Fingerprints {
			fps[f] = true
		}
		if len(agg.Samples) < 4 {
			agg.Samples = append(agg.Samples, o.Samples...)
		}
		findings = append(findings, o.Findings...)
		troubles = append(troubles, o.Troubles...)
		if r.exit != 0 {
			if r.exit == 4 && o.InProgress != 0 {
				// The code under test deadlocked (see simkit.DeadlockSite).
				var p simkit.Plan
				if e := simkit.ReadJSON(r.job.Out+".inprogress", &p); e == nil {
					findings = append(findings, simkit.Finding{
						Violation: simkit.Violation{Property: prop, Rule: "deadlock", Class: deadlockSite(r.log), Detail: "the code under test deadlocked while executing this plan (nothing runs; a goroutine waits for a mutex inside mutagen):\n" + firstLines(r.log, 40)},
						Plan:      &p, Original: &p,
					})
				} else {
					troubles = append(troubles, fmt.Sprintf("worker %d deadlocked and no in-progress plan was found:\n%s", r.job.Worker, r.log))
				}
			} else if r.exit == 3 {
				troubles = append(troubles, fmt.Sprintf("worker %d hit the watchdog (seed %d scenario %s):\n%s", r.job.Worker, o.InProgress, o.InProgressScenario, r.log))
			} else if o.InProgress != 0 {
				// The process died while executing a plan (a panic in a system
				// goroutine cannot be recovered): treat as a crash finding.
				var p simkit.Plan
				if e := simkit.ReadJSON(r.job.Out+".inprogress", &p); e == nil {
					findings = append(findings, simkit.Finding{
						Violation: simkit.Violation{Property: prop, Rule: "process-crash", Class: crashClass(r.log), Detail: "worker process died while executing this plan:\n" + r.log},
						Plan:      &p, Original: &p,
					})
				} else {
					troubles = append(troubles, fmt.Sprintf("worker %d died (exit %d) and no in-progress plan was found:\n%s", r.job.Worker, r.exit, r.log))
				}
			} else {
				troubles = append(troubles, fmt.Sprintf("worker %d exited %d:\n%s", r.job.Worker, r.exit, r.log))
			}
		}
	}

	// Confirm findings by replay in a fresh process.
	known := loadKnown(root)
	byClass := map[string]simkit.Finding{}
	for _, f := range findings {
		k := f.Violation.Rule + "|" + f.Violation.Class
		if old, ok := byClass[k]; !ok || planSize(f.Plan) < planSize(old.Plan) {
			byClass[k] = f
		}
	}
	keys := make([]string, 0, len(byClass))
	for k := range byClass {
		keys = append(keys, k)
	}
	sort.Strings(keys)
	exitCode := 0
	violations := 0
	var reported []map[string]any
	for _, k := range keys {
		f := byClass[k]
		path, status := confirm(root, bin, dir, prop, f)
		switch status {
		case "confirmed":
			if kf := matchKnown(known, prop, f.Violation); kf != nil {
				fmt.Printf("KNOWN-FINDING: property=%s %s [rule=%s class=%s replay=%s]\n", prop, kf.Description, f.Violation.Rule, f.Violation.Class, path)
				reported = append(reported, map[string]any{"known_finding": kf.Description, "rule": f.Violation.Rule, "class": f.Violation.Class, "replay": path})
				continue
			}
			violations++
			exitCode = 1
			fmt.Printf("VIOLATION property=%s replay=%s\n", prop, path)
			fmt.Printf("  rule=%s class=%s\n  %s\n", f.Violation.Rule, f.Violation.Class, firstLines(f.Violation.Detail, 12))
			reported = append(reported, map[string]any{"violation": f.Violation, "replay": path})
		default:
			troubles = append(troubles, fmt.Sprintf("UNREPRODUCED finding rule=%s class=%s (replay file %s): %s", f.Violation.Rule, f.Violation.Class, path, firstLines(f.Violation.Detail, 6)))
		}
	}

	if d := os.Getenv("VERIF_KEEPLOG"); d != "" && len(troubles) > 0 {
		os.WriteFile(filepath.Join(d, "troubles.txt"), []byte(strings.Join(troubles, "\n=====\n")), 0o644)
	}
	wall := time.Since(start).Seconds()
	distinct := len(fps)
	cov := map[string]any{
		"evaluations":                    agg.Runs,
		"distinct_nontrivial":            distinct,
		"nontrivial_runs":                agg.NonTrivial,
		"rule":                           spec.Rule,
		"samples":                        agg.Samples,
		"per_scenario_runs":              agg.PerScenario,
		"scheduler_steps":                agg.Steps,
		"simulated_seconds":              agg.SimSeconds,
		"runs_per_hour":                  float64(agg.Runs) / wall * 3600,
		"counters":                       agg.Counters,
		"faults_fired":                   pick(agg.Counters, "fault."),
		"probes":                         pick(agg.Counters, "probe."),
		"enumerated":                     pick(agg.Counters, "enum."),
		"zero_probes":                    zeroProbes(spec, agg.Counters),
		"real_components":                spec.Real,
		"stub_components":                spec.Stub,
		"workers":                        *workers,
		"seed_base":                      seed,
		"reported":                       reported,
		"other_property_violations_seen": agg.OtherProps,
		"other_property_examples":        agg.OtherExamples,
		"build_overlay":                  overlayState,
		"automatic_yield_sites":          autoYieldSites,
		"troubles":                       troubles,
	}
	ev := evidence{PropertyID: prop, Tier: *tier, Seed: seed, Level: spec.Level, Coverage: cov, Assumptions: spec.Assumptions, WallS: wall, Violations: violations}
	os.MkdirAll(filepath.Join(root, "evidence"), 0o755)
	if err := simkit.WriteJSON(filepath.Join(root, "evidence", prop+".json"), ev); err != nil {
		trouble("cannot write evidence: %v", err)
	}
	fmt.Printf("%s %s: %d runs (%d non-trivial, %d distinct), %d steps, %.0f simulated s, %.1f s wall, %d violation(s)\n",
		prop, *tier, agg.Runs, agg.NonTrivial, distinct, agg.Steps, agg.SimSeconds, wall, violations)
	if len(troubles) > 0 && exitCode != 0 {
		fmt.Printf("(%d worker trouble report(s) besides the violation; first: %s)\n", len(troubles), firstLines(troubles[0], 8))
	}
	if len(troubles) > 0 && exitCode == 0 {
		for i, t := range troubles {
			if i >= 3 {
				fmt.Printf("TROUBLE: ... and %d more\n", len(troubles)-i)
				break
			}
			fmt.Println("TROUBLE:", firstLines(t, 40))
		}
		exit(2)
	}
	if agg.Runs == 0 || distinct < 2 {
		if exitCode == 0 {
			trouble("exploration covered too little: %d runs, %d distinct non-trivial", agg.Runs, distinct)
		}
	}
	exit(exitCode)
}

func crashClass(log string) string {
	for _, line := range strings.Split(log, "\n") {
		if strings.HasPrefix(line, "panic: ") || strings.HasPrefix(line, "fatal error: ") {
			l := line
			if len(l) > 120 {
				l = l[:120]
			}
			return l
		}
	}
	return "process-died"
}

func planSize(p *simkit.Plan) int {
	if p == nil {
		return 1 << 30
	}
	return len(p.Ops)*4 + len(p.Faults)*4 + len(p.Sched)
}

func matchKnown(known []knownFinding, prop string, v simkit.Violation) *knownFinding {
	for i := range known {
		k := &known[i]
		if k.Status == "known" && k.Property == prop && k.Rule == v.Rule && k.Class == v.Class {
			return k
		}
	}
	return nil
}

// deadlockSite extracts the site from a worker log's DEADLOCK line.
func deadlockSite(log string) string {
	for _, line := range strings.Split(log, "\n") {
		if rest, ok := strings.CutPrefix(line, "DEADLOCK: site="); ok {
			site, _, _ := strings.Cut(rest, " ")
			return site
		}
	}
	return "unknown"
}

// confirm writes the replay file and re-executes it in a fresh process.
func confirm(root, bin, dir, prop string, f simkit.Finding) (string, string) {
	os.MkdirAll(filepath.Join(root, "replays"), 0o755)
	path := filepath.Join(root, "replays", fmt.Sprintf("%s-%s-%s-%d.json", prop, sanitize(f.Violation.Rule), short(sanitize(f.Violation.Class)), f.Plan.Seed))
	write := func(plan *simkit.Plan, note string) {
		rf := simkit.ReplayFile{Property: prop, Rule: f.Violation.Rule, Class: f.Violation.Class, Detail: f.Violation.Detail,
			Engine: plan.Engine, Plan: plan, Journal: f.Journal, JournalHash: f.JournalHash, Note: note}
		if plan != f.Original {
			rf.Original = f.Original
		}
		if err := simkit.WriteJSON(path, rf); err != nil {
			trouble("cannot write replay file: %v", err)
		}
	}
	try := func(plan *simkit.Plan) (int, int) {
		job := simkit.Job{Property: prop, Mode: "replay", Replay: plan, Repeat: 5, Worker: 900}
		wr := runWorker(bin, job, dir, 10*time.Minute)
		if f.Violation.Rule == "process-crash" {
			if wr.exit != 0 && wr.exit != 3 && wr.exit != 4 {
				return 3, 3
			}
			return 0, 3
		}
		if f.Violation.Rule == "deadlock" {
			if wr.exit == 4 && deadlockSite(wr.log) == f.Violation.Class {
				return 1, 1
			}
			return 0, 1
		}
		if wr.out == nil {
			return 0, 3
		}
		hit := 0
		for _, r := range wr.out.ReplayResults {
			for _, v := range r.Violations {
				if v.Property == prop && v.Rule == f.Violation.Rule && v.Class == f.Violation.Class {
					hit++
					break
				}
			}
		}
		return hit, len(wr.out.ReplayResults)
	}
	// A replay is a pure function of the file and the code except for what the
	// Go runtime decides inside one scheduler step (order of ready select
	// cases, of goroutines woken together): the file is confirmed when a fresh
	// process reproduces the same rule and class; the rate is recorded.
	write(f.Plan, "minimised plan")
	if hit, n := try(f.Plan); hit > 0 {
		write(f.Plan, fmt.Sprintf("minimised plan; reproduced %d/%d times in a fresh process", hit, n))
		return path, "confirmed"
	}
	if f.Original != nil && f.Original != f.Plan {
		write(f.Original, "original (unminimised) plan: the minimised one did not reproduce in a fresh process")
		if hit, n := try(f.Original); hit > 0 {
			write(f.Original, fmt.Sprintf("original (unminimised) plan; reproduced %d/%d times in a fresh process", hit, n))
			return path, "confirmed"
		}
	}
	return path, "unreproduced"
}

func doReplay(root, bin, dir, prop, file string) int {
	var rf simkit.ReplayFile
	if err := simkit.ReadJSON(file, &rf); err != nil {
		trouble("cannot read replay file: %v", err)
	}
	for attempt := 1; attempt <= 20; attempt++ {
		job := simkit.Job{Property: prop, Mode: "replay", Replay: rf.Plan, Repeat: 1, Worker: 901}
		wr := runWorker(bin, job, dir, 10*time.Minute)
		if rf.Rule == "process-crash" {
			if wr.exit != 0 && wr.exit != 3 && wr.exit != 4 {
				fmt.Printf("VIOLATION property=%s replay=%s\n  rule=process-crash\n%s\n", prop, file, firstLines(wr.log, logLines()))
				return 1
			}
			continue
		}
		if rf.Rule == "deadlock" {
			if wr.exit == 4 && deadlockSite(wr.log) == rf.Class {
				fmt.Printf("VIOLATION property=%s replay=%s\n  rule=deadlock class=%s\n%s\n", prop, file, rf.Class, firstLines(wr.log, logLines()))
				return 1
			}
			continue
		}
		if wr.out == nil || len(wr.out.ReplayResults) == 0 {
			fmt.Println(wr.log)
			trouble("replay worker produced no result (exit %d)", wr.exit)
		}
		r := wr.out.ReplayResults[0]
		if r.Trouble != "" {
			trouble("replay: %s", r.Trouble)
		}
		for _, v := range r.Violations {
			if v.Property == prop && v.Rule == rf.Rule && v.Class == rf.Class {
				for _, l := range r.JournalTail {
					fmt.Println("  ", l)
				}
				match := "differs from the recorded one only inside scheduler steps (runtime-chosen order)"
				if r.JournalHash == rf.JournalHash {
					match = "identical to the recorded journal"
				}
				fmt.Printf("journal hash %s (recorded %s): %s; attempt %d\n", r.JournalHash, rf.JournalHash, match, attempt)
				fmt.Printf("VIOLATION property=%s replay=%s\n  rule=%s class=%s\n  %s\n", prop, file, v.Rule, v.Class, v.Detail)
				return 1
			}
		}
		if attempt == 20 {
			for _, l := range r.JournalTail {
				fmt.Println("  ", l)
			}
			fmt.Printf("replay of %s did not reproduce rule=%s class=%s in %d attempts (violations seen last: %v)\n", file, rf.Rule, rf.Class, attempt, r.Violations)
		}
	}
	return 0
}

func doSelfcheck(bin, dir, prop, tier string, seed uint64, runs int, scenario string, exact uint64) int {
	if runs == 0 {
		runs = 30
	}
	type key struct{ gmp string }
	all := map[string]map[string]bool{}
	n := 0
	gmps := []string{"1", "4", "16"}
	if v := os.Getenv("VERIF_SELFCHECK_GMP"); v != "" {
		// e.g. "1,1,1": the operating point of the checks (workers and replays
		// run with GOMAXPROCS=1) instead of the stricter comparison across
		// degrees of parallelism.
		gmps = strings.Split(v, ",")
	}
	for _, gmp := range gmps {
		os.Setenv("VERIF_GOMAXPROCS", gmp)
		for rep := 0; rep < 2; rep++ {
			job := simkit.Job{Property: prop, Tier: tier, Mode: "selfcheck", SeedBase: seed, MaxRuns: runs, Repeat: 1, Worker: 700 + n, Scenario: scenario, ExactSeed: exact}
			n++
			wr := runWorker(bin, job, dir, 30*time.Minute)
			if wr.out == nil {
				fmt.Println(wr.log)
				trouble("selfcheck worker failed (exit %d)", wr.exit)
			}
			for k, hs := range wr.out.SelfcheckHashes {
				if all[k] == nil {
					all[k] = map[string]bool{}
				}
				for _, h := range hs {
					all[k][h] = true
				}
			}
			for _, t := range wr.out.Troubles {
				fmt.Println("TROUBLE in selfcheck run:", firstLines(t, 20))
			}
		}
	}
	div := 0
	for k, hs := range all {
		if len(hs) > 1 {
			div++
			fmt.Printf("DIVERGENT %s: %d distinct journal hashes\n", k, len(hs))
		}
	}
	fmt.Printf("selfcheck %s: %d seeds x %d executions (GOMAXPROCS %s x 2 processes): %d divergent\n", prop, len(all), 2*len(gmps), strings.Join(gmps, "/"), div)
	if div > 0 {
		return 2
	}
	return 0
}

func pick(m map[string]int64, prefix string) map[string]int64 {
	out := map[string]int64{}
	for k, v := range m {
		if strings.HasPrefix(k, prefix) {
			out[k] = v
		}
	}
	return out
}

func zeroProbes(spec propSpec, counters map[string]int64) []string {
	var out []string
	for _, p := range spec.Probes {
		if counters[p] == 0 {
			out = append(out, p)
		}
	}
	return out
}

func firstLines(s string, n int) string {
	lines := strings.Split(s, "\n")
	if len(lines) > n {
		lines = append(lines[:n], "...")
	}
	return strings.Join(lines, "\n  ")
}

func short(s string) string {
	if len(s) > 40 {
		return s[:40]
	}
	return s
}

func sanitize(s string) string {
	return strings.Map(func(r rune) rune {
		if r >= 'a' && r <= 'z' || r >= 'A' && r <= 'Z' || r >= '0' && r <= '9' || r == '-' {
			return r
		}
		return '_'
	}, s)
}

func envOr(k, d string) string {
	if v := os.Getenv(k); v != "" {
		return v
	}
	return d
}

func shm() string {
	if st, err := os.Stat("/dev/shm"); err == nil && st.IsDir() {
		return "/dev/shm"
	}
	return os.TempDir()
}

var _ = json.Marshal

// logLines is how much of a crashed worker's output is shown (VERIF_LOG_LINES
// raises it for debugging).
func logLines() int {
	if v, err := strconv.Atoi(os.Getenv("VERIF_LOG_LINES")); err == nil && v > 0 {
		return v
	}
	return 30
}
