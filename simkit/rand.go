package simkit

import (
	"math/rand/v2"
)

// Rand is the single seeded source of generated choices.
type Rand struct{ r *rand.Rand }

// NewRand creates a PRNG from a seed and a stream discriminator.
func NewRand(seed uint64, stream uint64) *Rand {
	return &Rand{rand.New(rand.NewPCG(seed, stream^0x9e3779b97f4a7c15))}
}

// Intn returns a value in [0,n); 0 for n<=1.
func (r *Rand) Intn(n int) int {
	if n <= 1 {
		return 0
	}
	return r.r.IntN(n)
}

// Range returns a value in [lo,hi].
func (r *Rand) Range(lo, hi int) int {
	if hi <= lo {
		return lo
	}
	return lo + r.r.IntN(hi-lo+1)
}

// Chance returns true with probability num/den.
func (r *Rand) Chance(num, den int) bool { return r.r.IntN(den) < num }

// Uint64 returns a random 64-bit value.
func (r *Rand) Uint64() uint64 { return r.r.Uint64() }

// Pick returns a random element.
func Pick[T any](r *Rand, xs []T) T { return xs[r.Intn(len(xs))] }

// Weighted picks index i with probability weights[i]/sum.
func (r *Rand) Weighted(weights []int) int {
	sum := 0
	for _, w := range weights {
		sum += w
	}
	if sum <= 0 {
		return 0
	}
	x := r.r.IntN(sum)
	for i, w := range weights {
		if x < w {
			return i
		}
		x -= w
	}
	return len(weights) - 1
}

// Bytes fills a fresh slice of length n with bytes from a small or full
// alphabet (small alphabets make rsync block matches likely).
func (r *Rand) Bytes(n int, alphabet int) []byte {
	b := make([]byte, n)
	for i := range b {
		if alphabet <= 0 || alphabet >= 256 {
			b[i] = byte(r.r.IntN(256))
		} else {
			b[i] = byte('a' + r.r.IntN(alphabet))
		}
	}
	return b
}

// SmallBiased returns a size in [0,max] biased towards small values and
// boundary values.
func (r *Rand) SmallBiased(max int) int {
	switch r.r.IntN(6) {
	case 0:
		return 0
	case 1:
		return r.Range(0, min(max, 3))
	case 2:
		return max
	case 3:
		return r.Range(0, max)
	default:
		return r.Range(0, min(max, 1+max/8))
	}
}
