#!/bin/sh
# usage: sweep.sh <tier> <budget-seconds> [seed]   (meant for `vp run --with-repo -- tools/sweep.sh thorough 240 7`)
# Runs every claimed check at the given tier/budget against a snapshot of /repo when $VP_RUN_REPO is set.
tier=${1:-thorough}; budget=${2:-240}; seed=${3:-1}
export GOFLAGS=-mod=mod GOPROXY=off GOSUMDB=off GOTOOLCHAIN=local VERIF_SEED=$seed
if [ -n "$VP_RUN_REPO" ]; then sed -i "s#=> /repo#=> $VP_RUN_REPO#" go.mod; fi
./setup.sh || exit 2
for id in $(jq -r '.checks[].property_id' MANIFEST.json); do
  start=$(date +%s)
  out=$(./bin/check $id --tier $tier --budget $budget 2>&1); code=$?
  echo "$id exit=$code $(( $(date +%s) - start ))s :: $(echo "$out" | tail -1 | cut -c1-200)"
  if [ $code -ne 0 ]; then echo "$out" | head -30; fi
done
