package wiresim

import (
	"bytes"
	"encoding/binary"
	"fmt"
	"io"
	"sync"
	"testing"
	"time"

	"github.com/mutagen-io/mutagen/pkg/agent"
	"github.com/mutagen-io/mutagen/pkg/mutagen"

	"verif/simkit"
)

func genHandshake(p *simkit.Plan, r *simkit.Rand, tier string) {
	p.Cfg["frag"] = int64(simkit.Pick(r, []int{1, 1, 2, 5, 0}))
	p.Cfg["short"] = int64(simkit.Pick(r, []int{0, 1, 2}))
	p.Cfg["xor"] = int64(r.Range(1, 255))
	p.Cfg["delta"] = int64(simkit.Pick(r, []int{1, -1, 256, 65536, 1 << 24}))
	p.Cfg["sched_sticky"] = int64(simkit.Pick(r, []int{0, 50}))
}

// Independent copy of the documented handshake constants.
var (
	refServerMagic = []byte{0x05, 0x27, 0x87}
	refClientMagic = []byte{0x87, 0x27, 0x05}
)

func refVersion(dMajor, dMinor, dPatch int64) []byte {
	b := make([]byte, 12)
	binary.BigEndian.PutUint32(b[0:], uint32(int64(mutagen.VersionMajor)+dMajor))
	binary.BigEndian.PutUint32(b[4:], uint32(int64(mutagen.VersionMinor)+dMinor))
	binary.BigEndian.PutUint32(b[8:], uint32(int64(mutagen.VersionPatch)+dPatch))
	return b
}

type hsOutcome struct {
	done     bool
	err      error
	appOK    bool
	finished time.Duration
}

// realClient performs the client side exactly as agent dialing does, then an
// application exchange (one byte each way) to observe whether the connection
// became usable.
func realClient(stream io.ReadWriteCloser) (error, bool) {
	if err := agent.ClientHandshake(stream); err != nil {
		stream.Close()
		return err, false
	}
	if err := mutagen.ClientVersionHandshake(stream); err != nil {
		stream.Close()
		return err, false
	}
	var b [1]byte
	if _, err := stream.Write([]byte{0x42}); err != nil {
		stream.Close()
		return nil, false
	}
	if _, err := io.ReadFull(stream, b[:]); err != nil || b[0] != 0x43 {
		stream.Close()
		return nil, false
	}
	stream.Close()
	return nil, true
}

func realServer(stream io.ReadWriteCloser) (error, bool) {
	if err := agent.ServerHandshake(stream); err != nil {
		stream.Close()
		return err, false
	}
	if err := mutagen.ServerVersionHandshake(stream); err != nil {
		stream.Close()
		return err, false
	}
	var b [1]byte
	if _, err := io.ReadFull(stream, b[:]); err != nil || b[0] != 0x42 {
		stream.Close()
		return nil, false
	}
	if _, err := stream.Write([]byte{0x43}); err != nil {
		stream.Close()
		return nil, false
	}
	stream.Close()
	return nil, true
}

// fakeServer plays a server whose magic number or version differs in one
// field; like a real one it sends its values and then gives up.
func fakeServer(stream io.ReadWriteCloser, magic, version []byte) {
	stream.Write(magic)
	var m [3]byte
	if _, err := io.ReadFull(stream, m[:]); err != nil {
		stream.Close()
		return
	}
	stream.Write(version)
	var v [12]byte
	io.ReadFull(stream, v[:])
	stream.Close()
}

func fakeClient(stream io.ReadWriteCloser, magic, version []byte) {
	var m [3]byte
	if _, err := io.ReadFull(stream, m[:]); err != nil {
		stream.Close()
		return
	}
	stream.Write(magic)
	var v [12]byte
	if _, err := io.ReadFull(stream, v[:]); err != nil {
		stream.Close()
		return
	}
	stream.Write(version)
	var b [1]byte
	io.ReadFull(stream, b[:])
	stream.Close()
}

// execHandshake decides C34 by enumeration: the untouched exchange, every
// single-byte corruption and truncation point of both directions, and every
// single-field perturbation by a simulated peer.
func execHandshake(t *testing.T, plan *simkit.Plan) *simkit.Result {
	res := simkit.Run(t, plan, simkit.Options{MaxSteps: 200000, Horizon: time.Hour}, func(s *simkit.Sim) {
		c := plan.Cfg
		caseNo := 0
		// run executes one exchange; client/server nil means the real one.
		run := func(name string, opts simkit.LinkOpts, fakeSrv, fakeCli func(io.ReadWriteCloser)) (cl, sv hsOutcome) {
			caseNo++
			opts.FragMax, opts.ShortMax = int(c["frag"]), int(c["short"])
			link := s.NewLink(fmt.Sprintf("h%d", caseNo), opts)
			var mu sync.Mutex
			pending := 2
			s.Go(fmt.Sprintf("h%d.client", caseNo), func() {
				if fakeCli != nil {
					fakeCli(link.A)
					mu.Lock()
					cl.done = true
				} else {
					err, ok := realClient(link.A)
					mu.Lock()
					cl = hsOutcome{true, err, ok, s.Now()}
				}
				pending--
				mu.Unlock()
			})
			s.Go(fmt.Sprintf("h%d.server", caseNo), func() {
				if fakeSrv != nil {
					fakeSrv(link.B)
					mu.Lock()
					sv.done = true
				} else {
					err, ok := realServer(link.B)
					mu.Lock()
					sv = hsOutcome{true, err, ok, s.Now()}
				}
				pending--
				mu.Unlock()
			})
			s.SetBudget(20000, time.Minute)
			stop := s.Loop(func() bool { mu.Lock(); defer mu.Unlock(); return pending == 0 })
			mu.Lock()
			defer mu.Unlock()
			if stop != simkit.StopCond {
				s.Violate("C34", "hang", name, "case %s: handshake did not finish (client done=%v, server done=%v)", name, cl.done, sv.done)
				link.A.Close()
				link.B.Close()
			}
			s.Logf("handshake", "%s: client err=%v app=%v | server err=%v app=%v", name, cl.err != nil, cl.appOK, sv.err != nil, sv.appOK)
			return cl, sv
		}
		// A. untouched.
		s.Count("enum.cases", 1)
		cl, sv := run("untouched", simkit.LinkOpts{}, nil, nil)
		if cl.err != nil || sv.err != nil || !cl.appOK || !sv.appOK {
			s.Violate("C34", "untouched-rejected", "untouched", "matching magic numbers and versions were not accepted: client err=%v server err=%v usable=%v/%v", cl.err, sv.err, cl.appOK, sv.appOK)
			return
		}
		// B/C. corruption and truncation of each of the 15 bytes per direction.
		// Direction "ab" is client->server (3 magic + 12 version), "ba" server->client.
		for _, dir := range []string{"ab", "ba"} {
			for i := 0; i < 15; i++ {
				for _, kind := range []string{"corrupt", "truncate"} {
					if s.Violated() {
						return
					}
					s.Count("enum.cases", 1)
					opts := simkit.LinkOpts{}
					if kind == "corrupt" {
						opts.CorruptAt = map[string]int{dir: i}
						opts.CorruptXor = byte(c["xor"])
					} else {
						opts.TruncAt = map[string]int{dir: i}
					}
					name := fmt.Sprintf("%s-%s-byte%d", kind, dir, i)
					cl, sv := run(name, opts, nil, nil)
					recv, other := sv, cl
					rname := "server"
					if dir == "ba" {
						recv, other = cl, sv
						rname = "client"
					}
					if recv.err == nil {
						s.Violate("C34", "altered-handshake-accepted", kind+"-"+dir, "case %s: the %s received altered handshake bytes and did not fail", name, rname)
					}
					if cl.appOK || sv.appOK {
						s.Violate("C34", "connection-usable-after-bad-handshake", kind+"-"+dir, "case %s: an application exchange completed (client %v, server %v)", name, cl.appOK, sv.appOK)
					}
					_ = other
				}
			}
		}
		// D. a peer that really differs in one field: the real side must fail.
		delta := c["delta"]
		type pert struct {
			name           string
			magic          int // index of the magic byte to alter, -1 none
			dMaj, dMin, dP int64
		}
		perts := []pert{{"magic0", 0, 0, 0, 0}, {"magic1", 1, 0, 0, 0}, {"magic2", 2, 0, 0, 0},
			{"major", -1, delta, 0, 0}, {"minor", -1, 0, delta, 0}, {"patch", -1, 0, 0, delta}}
		for _, pt := range perts {
			if s.Violated() {
				return
			}
			for _, side := range []string{"fake-server", "fake-client"} {
				s.Count("enum.cases", 1)
				ver := refVersion(pt.dMaj, pt.dMin, pt.dP)
				var cl, sv hsOutcome
				if side == "fake-server" {
					magic := append([]byte(nil), refServerMagic...)
					if pt.magic >= 0 {
						magic[pt.magic] ^= byte(c["xor"])
					}
					cl, _ = run(side+"-"+pt.name, simkit.LinkOpts{}, func(st io.ReadWriteCloser) { fakeServer(st, magic, ver) }, nil)
					if cl.err == nil {
						s.Violate("C34", "mismatch-accepted", "client:"+pt.name, "the client accepted a server whose %s differs", pt.name)
					}
				} else {
					magic := append([]byte(nil), refClientMagic...)
					if pt.magic >= 0 {
						magic[pt.magic] ^= byte(c["xor"])
					}
					_, sv = run(side+"-"+pt.name, simkit.LinkOpts{}, nil, func(st io.ReadWriteCloser) { fakeClient(st, magic, ver) })
					if sv.err == nil {
						s.Violate("C34", "mismatch-accepted", "server:"+pt.name, "the server accepted a client whose %s differs", pt.name)
					}
				}
			}
		}
		// D2. peers whose magic number is wrong in more than one byte: every
		// other arrangement of the right bytes (one of them is the magic number
		// of the peer's own role: a server talking to a server), the same
		// alteration applied to two bytes, alterations of all three bytes that
		// cancel each other out under exclusive-or, and - for the server - a peer
		// that merely echoes what it receives (a looped-back stream).
		x, y := byte(c["xor"]), byte(c["xor"]*7+1)
		if y == 0 || y == x {
			y = x ^ 0x5a
		}
		type alt struct {
			name string
			f    func(m []byte) []byte
		}
		alts := []alt{
			{"perm-021", func(m []byte) []byte { return []byte{m[0], m[2], m[1]} }},
			{"perm-102", func(m []byte) []byte { return []byte{m[1], m[0], m[2]} }},
			{"perm-120", func(m []byte) []byte { return []byte{m[1], m[2], m[0]} }},
			{"perm-201", func(m []byte) []byte { return []byte{m[2], m[0], m[1]} }},
			{"perm-210", func(m []byte) []byte { return []byte{m[2], m[1], m[0]} }},
			{"xor-01", func(m []byte) []byte { return []byte{m[0] ^ x, m[1] ^ x, m[2]} }},
			{"xor-02", func(m []byte) []byte { return []byte{m[0] ^ x, m[1], m[2] ^ x} }},
			{"xor-12", func(m []byte) []byte { return []byte{m[0], m[1] ^ x, m[2] ^ x} }},
			{"xor-012", func(m []byte) []byte { return []byte{m[0] ^ x, m[1] ^ y, m[2] ^ x ^ y} }},
		}
		for _, a := range alts {
			if s.Violated() {
				return
			}
			s.Count("enum.cases", 2)
			if magic := a.f(refServerMagic); !bytes.Equal(magic, refServerMagic) {
				cl, _ := run("fake-server-magic-"+a.name, simkit.LinkOpts{}, func(st io.ReadWriteCloser) { fakeServer(st, magic, refVersion(0, 0, 0)) }, nil)
				if cl.err == nil {
					s.Violate("C34", "mismatch-accepted", "client:magic-"+a.name, "the client accepted a server whose magic number is % x instead of % x", magic, refServerMagic)
				}
			}
			if magic := a.f(refClientMagic); !bytes.Equal(magic, refClientMagic) {
				_, sv := run("fake-client-magic-"+a.name, simkit.LinkOpts{}, nil, func(st io.ReadWriteCloser) { fakeClient(st, magic, refVersion(0, 0, 0)) })
				if sv.err == nil {
					s.Violate("C34", "mismatch-accepted", "server:magic-"+a.name, "the server accepted a client whose magic number is % x instead of % x", magic, refClientMagic)
				}
			}
		}
		if !s.Violated() {
			s.Count("enum.cases", 1)
			_, sv := run("echo-peer", simkit.LinkOpts{}, nil, func(st io.ReadWriteCloser) {
				buf := make([]byte, 64)
				for {
					n, err := st.Read(buf)
					if n > 0 {
						if _, werr := st.Write(buf[:n]); werr != nil {
							break
						}
					}
					if err != nil {
						break
					}
				}
				st.Close()
			})
			if sv.err == nil {
				s.Violate("C34", "mismatch-accepted", "server:echo", "the server accepted a peer that only echoed the server's own handshake bytes back")
			}
		}
		// E. a conforming simulated peer built from the documented constants is
		// accepted (the constants themselves have not drifted).
		s.Count("enum.cases", 2)
		cl, _ = run("reference-server", simkit.LinkOpts{}, func(st io.ReadWriteCloser) {
			st.Write(refServerMagic)
			var m [3]byte
			io.ReadFull(st, m[:])
			st.Write(refVersion(0, 0, 0))
			var v [12]byte
			io.ReadFull(st, v[:])
			var b [1]byte
			io.ReadFull(st, b[:])
			st.Write([]byte{0x43})
			st.Close()
		}, nil)
		if cl.err != nil || !cl.appOK {
			s.Violate("C34", "reference-peer-rejected", "client", "the client rejected a server sending the documented magic number and the same version: %v", cl.err)
		}
		_, sv = run("reference-client", simkit.LinkOpts{}, nil, func(st io.ReadWriteCloser) {
			var m [3]byte
			io.ReadFull(st, m[:])
			st.Write(refClientMagic)
			var v [12]byte
			io.ReadFull(st, v[:])
			st.Write(refVersion(0, 0, 0))
			st.Write([]byte{0x42})
			var b [1]byte
			io.ReadFull(st, b[:])
			st.Close()
		})
		if sv.err != nil || !sv.appOK {
			s.Violate("C34", "reference-peer-rejected", "server", "the server rejected a client sending the documented magic number and the same version: %v", sv.err)
		}
		// F. overlapping handshakes in one process (a daemon dialing several
		// agents at once): one connection whose peer differs in one version field
		// runs at the same time as two connections whose peers match, all of them
		// fragmented, the interleaving chosen by the scheduler. Connections are
		// independent: the mismatching one must fail, the matching ones must be
		// accepted and become usable.
		type ovCase struct {
			name             string
			fakeSrv, fakeCli func(io.ReadWriteCloser)
			cl, sv           hsOutcome
		}
		runOverlapped := func(cases []*ovCase) bool {
			var mu sync.Mutex
			pending := 0
			var links []*simkit.Link
			frag := int(c["frag"])
			if frag == 0 || frag > 2 {
				frag = 1 + int(c["xor"])%2
			}
			for _, oc := range cases {
				oc := oc
				caseNo++
				link := s.NewLink(fmt.Sprintf("h%d", caseNo), simkit.LinkOpts{FragMax: frag, ShortMax: int(c["short"])})
				links = append(links, link)
				pending += 2
				s.Go(fmt.Sprintf("h%d.client", caseNo), func() {
					if oc.fakeCli != nil {
						oc.fakeCli(link.A)
						mu.Lock()
						oc.cl.done = true
					} else {
						err, ok := realClient(link.A)
						mu.Lock()
						oc.cl = hsOutcome{true, err, ok, s.Now()}
					}
					pending--
					mu.Unlock()
				})
				s.Go(fmt.Sprintf("h%d.server", caseNo), func() {
					if oc.fakeSrv != nil {
						oc.fakeSrv(link.B)
						mu.Lock()
						oc.sv.done = true
					} else {
						err, ok := realServer(link.B)
						mu.Lock()
						oc.sv = hsOutcome{true, err, ok, s.Now()}
					}
					pending--
					mu.Unlock()
				})
			}
			s.SetBudget(60000, time.Minute)
			stop := s.Loop(func() bool { mu.Lock(); defer mu.Unlock(); return pending == 0 })
			mu.Lock()
			defer mu.Unlock()
			if stop != simkit.StopCond {
				s.Violate("C34", "hang", "overlapped", "overlapped handshakes (%s...) did not finish", cases[0].name)
				for _, l := range links {
					l.A.Close()
					l.B.Close()
				}
				return false
			}
			return true
		}
		for _, pt := range perts[3:] {
			for _, side := range []string{"fake-server", "fake-client"} {
				if s.Violated() {
					return
				}
				s.Count("enum.cases", 1)
				s.Count("probe.overlapped", 1)
				ver := refVersion(pt.dMaj, pt.dMin, pt.dP)
				bad := &ovCase{name: "overlap-" + side + "-" + pt.name}
				if side == "fake-server" {
					bad.fakeSrv = func(st io.ReadWriteCloser) { fakeServer(st, refServerMagic, ver) }
				} else {
					bad.fakeCli = func(st io.ReadWriteCloser) { fakeClient(st, refClientMagic, ver) }
				}
				good1, good2 := &ovCase{name: "overlap-good1"}, &ovCase{name: "overlap-good2"}
				if !runOverlapped([]*ovCase{good1, bad, good2}) {
					return
				}
				s.Logf("handshake", "%s: client err=%v | server err=%v | good %v %v %v %v", bad.name, bad.cl.err != nil, bad.sv.err != nil, good1.cl.appOK, good1.sv.appOK, good2.cl.appOK, good2.sv.appOK)
				if side == "fake-server" && bad.cl.err == nil {
					s.Violate("C34", "mismatch-accepted", "overlapped-client:"+pt.name, "with other handshakes under way in the same process, the client accepted a server whose %s differs", pt.name)
				}
				if side == "fake-client" && bad.sv.err == nil {
					s.Violate("C34", "mismatch-accepted", "overlapped-server:"+pt.name, "with other handshakes under way in the same process, the server accepted a client whose %s differs", pt.name)
				}
				for _, g := range []*ovCase{good1, good2} {
					if g.cl.err != nil || g.sv.err != nil || !g.cl.appOK || !g.sv.appOK {
						s.Violate("C34", "untouched-rejected", "overlapped", "a matching handshake overlapping with %s was not accepted: client err=%v server err=%v usable=%v/%v", bad.name, g.cl.err, g.sv.err, g.cl.appOK, g.sv.appOK)
					}
				}
			}
		}
		s.Finish()
		s.WaitActors(time.Minute)
	})
	res.NonTrivial = res.Counters["enum.cases"] >= 10
	res.Fingerprint = res.JournalHash
	return res
}
