package simkit

import (
	"fmt"
	"os"
	"runtime"
	"runtime/debug"
	"sort"
	"strconv"
	"strings"
	"testing"
	"time"
)

// Engine is implemented by every simulation engine.
type Engine interface {
	Name() string
	// Scenarios lists the scenario names that serve a property.
	Scenarios(property string) []string
	// Generate derives a complete plan from a seed.
	Generate(property, scenario string, seed uint64, tier string) *Plan
	// Execute runs one plan and evaluates every oracle of the scenario.
	Execute(t *testing.T, plan *Plan) *Result
}

// Job is what cmd/check hands to a worker process (env VERIF_JOB=<path>).
type Job struct {
	Property  string  `json:"property"`
	Tier      string  `json:"tier"`
	Mode      string  `json:"mode"` // explore | replay | selfcheck
	SeedBase  uint64  `json:"seed_base"`
	Worker    int     `json:"worker"`
	Workers   int     `json:"workers"`
	MaxRuns   int     `json:"max_runs"`
	BudgetSec float64 `json:"budget_sec"`
	Out       string  `json:"out"`
	Replay    *Plan   `json:"replay,omitempty"`
	Repeat    int     `json:"repeat,omitempty"`
	Scenario  string  `json:"scenario,omitempty"`
	NoShrink  bool    `json:"no_shrink,omitempty"`
	ExactSeed uint64  `json:"exact_seed,omitempty"`
}

// Finding is a violation with its (minimised) plan.
type Finding struct {
	Violation   Violation `json:"violation"`
	Plan        *Plan     `json:"plan"`
	Original    *Plan     `json:"original"`
	Journal     []string  `json:"journal_tail"`
	JournalHash string    `json:"journal_hash"`
	ShrinkExecs int       `json:"shrink_execs"`
}

// WorkerOut is what a worker writes to Job.Out.
type WorkerOut struct {
	Engine             string              `json:"engine"`
	Runs               int                 `json:"runs"`
	NonTrivial         int                 `json:"nontrivial"`
	Fingerprints       []string            `json:"fingerprints"`
	Counters           map[string]int64    `json:"counters"`
	PerScenario        map[string]int      `json:"per_scenario"`
	SimNanos           int64               `json:"sim_nanos"`
	SimSeconds         float64             `json:"sim_seconds"`
	Steps              int64               `json:"steps"`
	Samples            []map[string]any    `json:"samples"`
	Findings           []Finding           `json:"findings"`
	Troubles           []string            `json:"troubles"`
	OtherProps         map[string]int      `json:"other_props"`
	OtherExamples      map[string]string   `json:"other_examples,omitempty"` // first instance per rule: scenario, seed, detail
	WallSec            float64             `json:"wall_sec"`
	InProgress         uint64              `json:"in_progress_seed,omitempty"`
	InProgressScenario string              `json:"in_progress_scenario,omitempty"`
	ReplayResults      []*Result           `json:"replay_results,omitempty"`
	SelfcheckHashes    map[string][]string `json:"selfcheck_hashes,omitempty"`
}

// SeedFor derives the i-th run seed of a batch.
func SeedFor(base uint64, i int) uint64 {
	x := base + uint64(i)*0x9e3779b97f4a7c15
	x ^= x >> 30
	x *= 0xbf58476d1ce4e5b9
	x ^= x >> 27
	x *= 0x94d049bb133111eb
	x ^= x >> 31
	return x >> 11 // 53 bits: survives any JSON tool
}

// WorkerMain is the body of every engine's TestWorker.
func WorkerMain(t *testing.T, eng Engine) {
	path := os.Getenv("VERIF_JOB")
	if path == "" {
		t.Skip("VERIF_JOB not set")
	}
	var job Job
	if err := ReadJSON(path, &job); err != nil {
		fmt.Fprintln(os.Stderr, "TROUBLE: cannot read job:", err)
		os.Exit(2)
	}
	out := &WorkerOut{Engine: eng.Name(), Counters: map[string]int64{}, PerScenario: map[string]int{}, OtherProps: map[string]int{}}
	start := time.Now()
	flush := func() {
		out.WallSec = time.Since(start).Seconds()
		if err := WriteJSON(job.Out, out); err != nil {
			fmt.Fprintln(os.Stderr, "TROUBLE: cannot write output:", err)
			os.Exit(2)
		}
	}
	switch job.Mode {
	case "replay":
		n := job.Repeat
		if n <= 0 {
			n = 1
		}
		for i := 0; i < n; i++ {
			p := job.Replay.Clone()
			out.InProgress = p.Seed
			flush()
			res := execute(eng, t, p)
			keep := 60
			if v, err := strconv.Atoi(os.Getenv("VERIF_JOURNAL_TAIL")); err == nil && v > 0 {
				keep = v
			}
			res.JournalTail = tail(res.JournalTail, keep)
			out.ReplayResults = append(out.ReplayResults, res)
			out.Runs++
		}
		out.InProgress = 0
		flush()
		return
	case "selfcheck":
		// Execute each seed Repeat times and record journal hashes.
		out.SelfcheckHashes = map[string][]string{}
		scen := eng.Scenarios(job.Property)
		for i := 0; i < job.MaxRuns; i++ {
			seed := SeedFor(job.SeedBase, i)
			if job.ExactSeed != 0 {
				if i > 0 {
					break
				}
				seed = job.ExactSeed
			}
			sc := scen[i%len(scen)]
			if job.Scenario != "" {
				sc = job.Scenario
			}
			for k := 0; k < max(job.Repeat, 1); k++ {
				p := eng.Generate(job.Property, sc, seed, job.Tier)
				res := execute(eng, t, p)
				if dir := os.Getenv("VERIF_DUMP_DIR"); dir != "" {
					// (debugging aid: the whole journal of each execution)
					os.WriteFile(fmt.Sprintf("%s/%d-w%d-%d.journal", dir, seed, job.Worker, k), []byte(strings.Join(res.JournalTail, "\n")+"\n"), 0o644)
					WriteJSON(fmt.Sprintf("%s/%d.plan", dir, seed), p)
				}
				key := fmt.Sprintf("%s/%d", sc, seed)
				vs := ""
				for _, v := range res.Violations {
					vs += "|" + v.Property + ":" + v.Rule
				}
				out.SelfcheckHashes[key] = append(out.SelfcheckHashes[key], res.JournalHash+"/"+res.Fingerprint+vs)
				if res.Trouble != "" {
					out.Troubles = append(out.Troubles, res.Trouble)
				}
				out.Runs++
			}
		}
		flush()
		return
	}
	scen := eng.Scenarios(job.Property)
	if job.Scenario != "" {
		scen = []string{job.Scenario}
	}
	if len(scen) == 0 {
		fmt.Fprintln(os.Stderr, "TROUBLE: engine", eng.Name(), "has no scenario for", job.Property)
		os.Exit(2)
	}
	fps := map[string]bool{}
	budget := time.Duration(job.BudgetSec * float64(time.Second))
	lastFlush := time.Now()
	seenClass := map[string]bool{}
	spent := map[string]time.Duration{}
	for i := 0; job.MaxRuns <= 0 || i < job.MaxRuns; i++ {
		if budget > 0 && time.Since(start) > budget {
			break
		}
		idx := i*job.Workers + job.Worker
		seed := SeedFor(job.SeedBase, idx)
		if job.ExactSeed != 0 {
			if i > 0 {
				break
			}
			seed = job.ExactSeed
		}
		// Scenarios share the worker's time, not its run count (a cheap
		// enumeration and an expensive real-disk session would otherwise get
		// the same number of runs and the cheap one almost no time): the next
		// run goes to the scenario that has used the least wall time so far.
		sc := scen[idx%len(scen)]
		if len(scen) > 1 && i >= len(scen) {
			best := -1
			for k, name := range scen {
				if best < 0 || spent[name] < spent[scen[best]] {
					best = k
				}
			}
			sc = scen[best]
		}
		runStart := time.Now()
		plan := eng.Generate(job.Property, sc, seed, job.Tier)
		out.InProgress, out.InProgressScenario = seed, sc
		if time.Since(lastFlush) > 2*time.Second || i == 0 {
			flush()
			lastFlush = time.Now()
		}
		WriteJSON(job.Out+".inprogress", plan)
		res := execute(eng, t, plan)
		spent[sc] += time.Since(runStart)
		out.Runs++
		out.PerScenario[sc]++
		out.SimSeconds += float64(res.SimNanos) / 1e9
		out.Steps += int64(res.Steps)
		for k, v := range res.Counters {
			out.Counters[k] += v
		}
		if res.Trouble != "" {
			out.Troubles = append(out.Troubles, fmt.Sprintf("scenario=%s seed=%d: %s", sc, seed, res.Trouble))
			if len(out.Troubles) > 3 {
				break
			}
			continue
		}
		if res.NonTrivial {
			out.NonTrivial++
			if len(fps) < 500000 {
				fps[res.Fingerprint] = true
			}
		}
		if len(out.Samples) < 3 && (res.NonTrivial || i > 20) {
			smp := plan.Summary(24)
			smp["steps"] = res.Steps
			smp["sim_seconds"] = float64(res.SimNanos) / 1e9
			smp["nontrivial"] = res.NonTrivial
			smp["outcome"] = "held"
			if len(res.Violations) > 0 {
				smp["outcome"] = fmt.Sprintf("violations: %v", res.Violations)
			}
			out.Samples = append(out.Samples, smp)
		}
		for _, v := range res.Violations {
			if v.Property != job.Property {
				key := v.Property + ":" + v.Rule + ":" + v.Class
				out.OtherProps[key]++
				if out.OtherExamples == nil {
					out.OtherExamples = map[string]string{}
				}
				if _, ok := out.OtherExamples[key]; !ok && len(out.OtherExamples) < 20 {
					out.OtherExamples[key] = fmt.Sprintf("scenario %s seed %d: %s", sc, seed, v.Detail)
				}
				continue
			}
			ck := v.Rule + "|" + v.Class
			if seenClass[ck] {
				continue
			}
			seenClass[ck] = true
			f := Finding{Violation: v, Original: plan.Clone(), Journal: tail(res.JournalTail, 80), JournalHash: res.JournalHash}
			f.Original.SchedClosed = true
			f.Plan = f.Original
			if !job.NoShrink {
				rule, class := v.Rule, v.Class
				shrunk, execs := Shrink(plan, 400, func(c *Plan) bool {
					r := eng.Execute(t, c)
					for _, w := range r.Violations {
						if w.Property == job.Property && w.Rule == rule && w.Class == class {
							return true
						}
					}
					return false
				})
				f.ShrinkExecs = execs
				if shrunk != plan {
					f.Plan = shrunk
					r := eng.Execute(t, shrunk.Clone())
					f.Journal = tail(r.JournalTail, 80)
					f.JournalHash = r.JournalHash
					for _, w := range r.Violations {
						if w.Property == job.Property && w.Rule == rule && w.Class == class {
							f.Violation = w
						}
					}
				}
			}
			out.Findings = append(out.Findings, f)
		}
		if len(out.Findings) >= 4 {
			break
		}
	}
	out.InProgress = 0
	out.Fingerprints = make([]string, 0, len(fps))
	for k := range fps {
		out.Fingerprints = append(out.Fingerprints, k)
	}
	sort.Strings(out.Fingerprints)
	flush()
}

func tail(xs []string, n int) []string {
	if len(xs) <= n {
		return xs
	}
	return xs[len(xs)-n:]
}

var sinceCollection int

// execute runs one plan with the garbage collector switched off: a collection
// cycle in the middle of a run reorders the goroutines of the bubble (assists,
// background workers) in a way no seed controls. Garbage is collected between
// runs instead (a run allocates little).
func execute(eng Engine, t *testing.T, p *Plan) *Result {
	old := debug.SetGCPercent(-1)
	res := eng.Execute(t, p)
	debug.SetGCPercent(old)
	sinceCollection++
	if sinceCollection >= 8 {
		sinceCollection = 0
		runtime.GC()
	}
	return res
}
