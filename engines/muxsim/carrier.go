package muxsim

import (
	"encoding/binary"
	"errors"
	"fmt"
	"io"
	"os"
	"sync"
	"time"

	"verif/simkit"
)

// Message kinds of the multiplexer wire protocol (independent copy: this
// parser doubles as the protocol reference for the wire monitor).
const (
	kHeartbeat = iota
	kOpen
	kAccept
	kData
	kIncrement
	kCloseWrite
	kClose
)

var kindNames = [...]string{"heartbeat", "open", "accept", "data", "increment", "closewrite", "close"}

// frame is one parsed wire message.
type frame struct {
	kind   int
	id     uint64
	value  uint64 // window / increment
	length int    // data payload length
}

func (f frame) String() string {
	switch f.kind {
	case kHeartbeat:
		return "heartbeat"
	case kOpen, kAccept:
		return fmt.Sprintf("%s id=%d window=%d", kindNames[f.kind], f.id, f.value)
	case kData:
		return fmt.Sprintf("data id=%d len=%d", f.id, f.length)
	case kIncrement:
		return fmt.Sprintf("increment id=%d amount=%d", f.id, f.value)
	default:
		if f.kind >= 0 && f.kind < len(kindNames) {
			return fmt.Sprintf("%s id=%d", kindNames[f.kind], f.id)
		}
		return fmt.Sprintf("unknown(%d)", f.kind)
	}
}

// parser is an incremental frame parser.
type parser struct {
	state   int // 0 kind, 1 id varint, 2 value varint, 3 len hi, 4 len lo, 5 payload
	cur     frame
	varint  []byte
	remain  int
	bad     string
	onFrame func(f frame)
	// payloadStart is the stream offset at which the current incomplete data
	// frame began (-1 when not inside a data frame).
	offset       int
	payloadStart int
}

func newParser(onFrame func(frame)) *parser {
	return &parser{onFrame: onFrame, payloadStart: -1}
}

func (p *parser) emit() {
	if p.onFrame != nil {
		p.onFrame(p.cur)
	}
	p.cur = frame{}
	p.state = 0
}

func (p *parser) feed(data []byte) {
	for _, b := range data {
		p.offset++
		if p.bad != "" {
			continue
		}
		switch p.state {
		case 0:
			p.cur = frame{kind: int(b)}
			if int(b) == kData {
				// A data frame is withheld from the reader until complete.
				p.payloadStart = p.offset - 1
			}
			if int(b) > kClose {
				p.bad = fmt.Sprintf("unknown message kind %#02x", b)
				p.emit()
				continue
			}
			if b == kHeartbeat {
				p.emit()
				continue
			}
			p.varint = p.varint[:0]
			p.state = 1
		case 1, 2:
			p.varint = append(p.varint, b)
			if b&0x80 != 0 {
				if len(p.varint) >= binary.MaxVarintLen64 {
					p.bad = "varint too long"
				}
				continue
			}
			v, _ := binary.Uvarint(p.varint)
			p.varint = p.varint[:0]
			if p.state == 1 {
				p.cur.id = v
				switch p.cur.kind {
				case kOpen, kAccept, kIncrement:
					p.state = 2
				case kData:
					p.state = 3
				default:
					p.emit()
				}
			} else {
				p.cur.value = v
				p.emit()
			}
		case 3:
			p.cur.length = int(b) << 8
			p.state = 4
		case 4:
			p.cur.length |= int(b)
			if p.cur.length == 0 {
				p.payloadStart = -1
				p.emit()
				continue
			}
			p.remain = p.cur.length
			p.state = 5
		case 5:
			p.remain--
			if p.remain == 0 {
				p.payloadStart = -1
				p.emit()
			}
		}
	}
}

// visibleLimit is the number of stream bytes a reader may consume without ever
// blocking in the middle of a data frame (the real multiplexer reads a data
// payload from the carrier while holding Stream.receiveBufferLock, and a
// goroutine parked on a sync.Mutex is not durably blocked for synctest).
func (p *parser) visibleLimit() int {
	if p.payloadStart >= 0 {
		return p.payloadStart
	}
	return p.offset
}

var errLinkCut = errors.New("simulated carrier failure")

// link is one direction of the simulated carrier.
type link struct {
	s    *simkit.Sim
	name string

	mu          sync.Mutex
	inflight    []byte // written, not yet delivered
	arrived     []byte // delivered, not yet consumed
	consumed    int    // stream offset of arrived[0]
	delivered   int    // total bytes delivered
	rx          *parser
	writeClosed bool
	readClosed  bool
	cut         bool
	capacity    int
	readable    chan struct{}
	pumpWake    chan struct{}
	writable    chan struct{}
	shortMax    int
	cutAt       int
	tieAt       time.Time // deliver what is queued next at exactly this instant (see pump)
	// tap observes every byte at the instant it enters the pipe (the wire
	// monitor must see both directions in causal order: a write that blocks
	// half-way has already put bytes on the wire that the peer may act on).
	tap func(p []byte)
}

func newLink(s *simkit.Sim, name string, capacity, shortMax int) *link {
	return &link{
		s: s, name: name, rx: newParser(nil), capacity: capacity, shortMax: shortMax, cutAt: -1,
		readable: make(chan struct{}, 1), pumpWake: make(chan struct{}, 1), writable: make(chan struct{}, 1),
	}
}

func signal(c chan struct{}) {
	select {
	case c <- struct{}{}:
	default:
	}
}

// idle reports whether nothing is in flight or unconsumed.
func (l *link) idle() bool {
	l.mu.Lock()
	defer l.mu.Unlock()
	return len(l.inflight) == 0 && len(l.arrived) == 0
}

func (l *link) write(p []byte) (int, error) {
	written := 0
	for len(p) > 0 {
		l.mu.Lock()
		if l.writeClosed || l.readClosed || l.cut {
			l.mu.Unlock()
			return written, io.ErrClosedPipe
		}
		room := len(p)
		if l.capacity > 0 {
			// A bounded pipe: bytes in flight plus delivered bytes the reader
			// could consume but has not (a receiver that stops reading pushes
			// back on the sender). Bytes of a frame that has not arrived
			// completely do not count, so that a frame can always complete.
			room = min(room, l.capacity-len(l.inflight)-max(0, l.visibleLocked()))
		}
		if room <= 0 {
			l.mu.Unlock()
			l.s.Count("probe.carrier_backpressure", 1)
			<-l.writable
			continue
		}
		l.inflight = append(l.inflight, p[:room]...)
		if debugLink {
			l.s.Logf(l.name, "write %x", p[:room])
		}
		if l.tap != nil {
			l.tap(p[:room])
		}
		l.mu.Unlock()
		signal(l.pumpWake)
		written += room
		p = p[room:]
	}
	return written, nil
}

var debugLink = os.Getenv("VERIF_JOURNAL_LINK") != "" // (debugging aid only: changes the journal)

// pump is the body of the link's delivery actor.
func (l *link) pump(fragMax int, delay time.Duration) {
	for {
		l.mu.Lock()
		n := len(l.inflight)
		done := l.readClosed || l.cut || (l.writeClosed && n == 0)
		l.mu.Unlock()
		if done {
			signal(l.readable)
			return
		}
		if n == 0 {
			<-l.pumpWake
			continue
		}
		l.mu.Lock()
		tie := l.tieAt
		l.tieAt = time.Time{}
		l.mu.Unlock()
		if !tie.IsZero() && time.Until(tie) > 0 {
			// Everything queued arrives at exactly that instant (the instant a
			// deadline of the receiving stream's reader expires), in one piece
			// and without the scheduler in between: the order of the two events
			// of that instant is then the runtime's.
			time.Sleep(time.Until(tie))
			l.mu.Lock()
			if !l.readClosed && !l.cut && l.cutAt < 0 {
				chunk := l.inflight
				l.rx.feed(chunk)
				l.arrived = append(l.arrived, chunk...)
				l.delivered += len(chunk)
				l.inflight = nil
				l.s.Count("probe.delivery_at_deadline_instant", 1)
			}
			l.mu.Unlock()
			signal(l.readable)
			signal(l.writable)
			continue
		}
		if delay > 0 {
			time.Sleep(delay)
		}
		l.s.Gate("", "deliver")
		l.mu.Lock()
		n = len(l.inflight)
		if n > 0 && !l.readClosed && !l.cut {
			k := n
			if fragMax > 0 {
				k = min(n, 1+l.s.Choose(fragMax))
			}
			if l.cutAt >= 0 && l.delivered+k >= l.cutAt {
				// Deliver up to the cut point, then fail the carrier.
				k = max(0, l.cutAt-l.delivered)
				l.cut = true
				l.s.Count("fault.link_cut", 1)
				l.s.Logf(l.name, "carrier cut after %d bytes", l.cutAt)
			}
			chunk := l.inflight[:k]
			l.rx.feed(chunk)
			l.arrived = append(l.arrived, chunk...)
			l.inflight = l.inflight[k:]
			l.delivered += k
			l.s.Count("probe.link_fragments", 1)
		}
		l.mu.Unlock()
		signal(l.readable)
		signal(l.writable)
	}
}

// visible returns how many arrived bytes the reader could consume right now.
func (l *link) visible() int {
	l.mu.Lock()
	defer l.mu.Unlock()
	if l.readClosed || l.cut {
		return 0
	}
	return max(0, l.visibleLocked())
}

// visibleLocked is visible with l.mu held.
func (l *link) visibleLocked() int {
	return l.rx.visibleLimit() - l.consumed
}

func (l *link) read(p []byte, short bool) (int, error) {
	for {
		l.mu.Lock()
		if l.readClosed {
			l.mu.Unlock()
			return 0, io.ErrClosedPipe
		}
		v := l.visibleLocked()
		if v > 0 && len(p) > 0 {
			n := min(len(p), v)
			if short && l.shortMax > 0 && n > 1 {
				n = min(n, 1+l.s.ChooseKeyed("short-read:"+l.name, l.shortMax))
			}
			copy(p, l.arrived[:n])
			l.arrived = l.arrived[n:]
			l.consumed += n
			l.mu.Unlock()
			if debugLink {
				l.s.Logf(l.name, "read %x (buffer %d, visible %d)", p[:n], len(p), v)
			}
			signal(l.writable)
			return n, nil
		}
		if len(p) == 0 {
			l.mu.Unlock()
			return 0, nil
		}
		if l.cut {
			l.mu.Unlock()
			return 0, errLinkCut
		}
		if l.writeClosed && len(l.inflight) == 0 {
			l.mu.Unlock()
			return 0, io.EOF
		}
		l.mu.Unlock()
		<-l.readable
	}
}

func (l *link) closeWrite() {
	l.mu.Lock()
	l.writeClosed = true
	l.mu.Unlock()
	signal(l.pumpWake)
	signal(l.readable)
	signal(l.writable)
}

func (l *link) closeRead() {
	l.mu.Lock()
	l.readClosed = true
	l.mu.Unlock()
	signal(l.pumpWake)
	signal(l.readable)
	signal(l.writable)
}

// carrier implements multiplexing.Carrier over two links.
type carrier struct {
	in, out *link
	once    sync.Once
}

func (c *carrier) Read(p []byte) (int, error) { return c.in.read(p, true) }

func (c *carrier) ReadByte() (byte, error) {
	var b [1]byte
	for {
		n, err := c.in.read(b[:], false)
		if n == 1 {
			return b[0], nil
		}
		if err != nil {
			return 0, err
		}
	}
}

func (c *carrier) Discard(n int) (int, error) {
	buf := make([]byte, min(n, 4096))
	done := 0
	for done < n {
		k, err := c.in.read(buf[:min(len(buf), n-done)], true)
		done += k
		if err != nil {
			return done, err
		}
	}
	return done, nil
}

func (c *carrier) Write(p []byte) (int, error) {
	return c.out.write(p)
}

func (c *carrier) Close() error {
	c.once.Do(func() {
		c.out.closeWrite()
		c.in.closeRead()
	})
	return nil
}
