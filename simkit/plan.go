// Package simkit is the deterministic simulation kernel shared by all engines:
// plans (workload + fault rules + schedule vector), a seeded PRNG, the gate
// scheduler that runs inside a testing/synctest bubble, journals, results,
// shrinking and the worker protocol used by cmd/check.
package simkit

import (
	"encoding/json"
	"fmt"
	"os"
	"sort"
	"strings"
)

// Op is one workload operation of one simulated actor.
type Op struct {
	Actor string   `json:"a"`
	Kind  string   `json:"k"`
	N     []int64  `json:"n,omitempty"`
	S     []string `json:"s,omitempty"`
}

func (o Op) String() string {
	var b strings.Builder
	fmt.Fprintf(&b, "%s:%s", o.Actor, o.Kind)
	for _, n := range o.N {
		fmt.Fprintf(&b, " %d", n)
	}
	for _, s := range o.S {
		fmt.Fprintf(&b, " %q", s)
	}
	return b.String()
}

// Int returns the i-th integer argument (0 if absent).
func (o Op) Int(i int) int64 {
	if i < len(o.N) {
		return o.N[i]
	}
	return 0
}

// Str returns the i-th string argument ("" if absent).
func (o Op) Str(i int) string {
	if i < len(o.S) {
		return o.S[i]
	}
	return ""
}

// Fault is one fault rule: the Nth occurrence (1-based) of Key suffers Kind.
type Fault struct {
	Kind string `json:"kind"`
	Key  string `json:"key"`
	Nth  int    `json:"nth"`
	Arg  int64  `json:"arg,omitempty"`
	S    string `json:"s,omitempty"`
}

// Plan fully determines one simulated run.
type Plan struct {
	Engine   string           `json:"engine"`
	Scenario string           `json:"scenario"`
	Property string           `json:"property"`
	Seed     uint64           `json:"seed"`
	Cfg      map[string]int64 `json:"cfg,omitempty"`
	Ops      []Op             `json:"ops,omitempty"`
	Faults   []Fault          `json:"faults,omitempty"`
	// Sched is the schedule vector: consumed in order whenever the scheduler
	// has more than one choice. When exhausted: if SchedClosed, choice 0;
	// otherwise drawn from a PRNG seeded by Seed and appended (recording).
	Sched       []uint16 `json:"sched,omitempty"`
	SchedClosed bool     `json:"sched_closed,omitempty"`
}

// C returns a configuration value (0 if absent).
func (p *Plan) C(key string) int64 { return p.Cfg[key] }

// Clone deep-copies a plan.
func (p *Plan) Clone() *Plan {
	q := *p
	q.Cfg = make(map[string]int64, len(p.Cfg))
	for k, v := range p.Cfg {
		q.Cfg[k] = v
	}
	q.Ops = make([]Op, len(p.Ops))
	for i, o := range p.Ops {
		o.N = append([]int64(nil), o.N...)
		o.S = append([]string(nil), o.S...)
		q.Ops[i] = o
	}
	q.Faults = append([]Fault(nil), p.Faults...)
	q.Sched = append([]uint16(nil), p.Sched...)
	return &q
}

// Summary is a compact human-readable rendering (used in evidence samples).
func (p *Plan) Summary(maxOps int) map[string]any {
	ops := make([]string, 0, len(p.Ops))
	for i, o := range p.Ops {
		if i >= maxOps {
			ops = append(ops, fmt.Sprintf("... %d more", len(p.Ops)-i))
			break
		}
		ops = append(ops, o.String())
	}
	faults := make([]string, 0, len(p.Faults))
	for _, f := range p.Faults {
		faults = append(faults, fmt.Sprintf("%s@%s#%d(%d%s)", f.Kind, f.Key, f.Nth, f.Arg, f.S))
	}
	keys := make([]string, 0, len(p.Cfg))
	for k := range p.Cfg {
		keys = append(keys, k)
	}
	sort.Strings(keys)
	cfg := make([]string, 0, len(keys))
	for _, k := range keys {
		cfg = append(cfg, fmt.Sprintf("%s=%d", k, p.Cfg[k]))
	}
	return map[string]any{
		"scenario": p.Scenario, "seed": p.Seed, "cfg": strings.Join(cfg, " "),
		"ops": ops, "faults": faults, "sched_len": len(p.Sched),
	}
}

// Violation is one oracle failure.
type Violation struct {
	Property string `json:"property"`
	Rule     string `json:"rule"`
	// Class identifies the failing call site / input class specifically enough
	// to be matched against known_findings.json.
	Class  string `json:"class"`
	Detail string `json:"detail"`
}

// Result is the outcome of executing one plan.
type Result struct {
	Seed        uint64           `json:"seed"`
	Violations  []Violation      `json:"violations,omitempty"`
	Trouble     string           `json:"trouble,omitempty"`
	Fingerprint string           `json:"fingerprint"`
	NonTrivial  bool             `json:"nontrivial"`
	Steps       int              `json:"steps"`
	SimNanos    int64            `json:"sim_nanos"`
	Counters    map[string]int64 `json:"counters,omitempty"`
	JournalTail []string         `json:"journal_tail,omitempty"`
	JournalHash string           `json:"journal_hash"`
}

// Has reports whether the result holds a violation of (property, rule); an
// empty rule matches any rule.
func (r *Result) Has(property, rule string) bool {
	for _, v := range r.Violations {
		if v.Property == property && (rule == "" || v.Rule == rule) {
			return true
		}
	}
	return false
}

// ReplayFile is what is written to /verif/replays.
type ReplayFile struct {
	Property    string   `json:"property"`
	Rule        string   `json:"rule"`
	Class       string   `json:"class"`
	Detail      string   `json:"detail"`
	Engine      string   `json:"engine"`
	Plan        *Plan    `json:"plan"`
	Original    *Plan    `json:"original_plan,omitempty"`
	Journal     []string `json:"journal_tail,omitempty"`
	JournalHash string   `json:"journal_hash,omitempty"`
	Note        string   `json:"note,omitempty"`
}

// WriteJSON writes v to path atomically enough for our purposes.
func WriteJSON(path string, v any) error {
	data, err := json.MarshalIndent(v, "", " ")
	if err != nil {
		return err
	}
	tmp := path + ".tmp"
	if err := os.WriteFile(tmp, append(data, '\n'), 0o644); err != nil {
		return err
	}
	return os.Rename(tmp, path)
}

// ReadJSON reads path into v.
func ReadJSON(path string, v any) error {
	data, err := os.ReadFile(path)
	if err != nil {
		return err
	}
	return json.Unmarshal(data, v)
}
