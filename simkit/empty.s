// This file allows the package to declare functions without bodies (go:linkname).
