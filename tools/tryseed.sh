#!/bin/sh
# usage: tryseed.sh <patch.diff> <property> [budget] [more properties...]
# Applies a seeded patch to /repo, runs the quick check(s), and undoes the patch.
# Evidence files are saved before and restored afterwards: evidence must only ever
# describe runs on the unchanged tree.
patch=$1; shift; prop=$1; shift; budget=${1:-20}; [ $# -gt 0 ] && shift
cd /verif
if ! git -C /repo apply --check "$patch" 2>/dev/null; then echo "PATCH DOES NOT APPLY"; exit 3; fi
git -C /repo apply "$patch"
for p in $prop "$@"; do
  [ -f evidence/$p.json ] && cp evidence/$p.json /tmp/tryseed-evidence-$p.json
  out=$(./bin/check $p --budget $budget $TRYSEED_ARGS 2>&1); code=$?
  [ -f /tmp/tryseed-evidence-$p.json ] && mv /tmp/tryseed-evidence-$p.json evidence/$p.json
  echo "== $p exit=$code"; echo "$out" | head -6 | cut -c1-260; echo "$out" | tail -1 | cut -c1-200
done
git -C /repo checkout -- . ; git -C /repo status --short | head -3
