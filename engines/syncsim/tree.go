package syncsim

import (
	"bytes"
	"crypto/sha1"
	"fmt"
	"sort"
	"strings"

	"github.com/mutagen-io/mutagen/pkg/synchronization/core"
)

// This file holds the harness's own (independent) tree helpers. None of them
// calls the reconciliation code under test.

func digestOf(id int64) []byte {
	h := sha1.Sum([]byte(fmt.Sprintf("content-%d", id)))
	return h[:]
}

func fileEntry(id int64, exec bool) *core.Entry {
	return &core.Entry{Kind: core.EntryKind_File, Digest: digestOf(id), Executable: exec}
}

func dirEntry() *core.Entry {
	return &core.Entry{Kind: core.EntryKind_Directory, Contents: map[string]*core.Entry{}}
}

func cloneEntry(e *core.Entry) *core.Entry {
	if e == nil {
		return nil
	}
	c := &core.Entry{Kind: e.Kind, Executable: e.Executable, Target: e.Target, Problem: e.Problem}
	if e.Digest != nil {
		c.Digest = append([]byte(nil), e.Digest...)
	}
	if e.Contents != nil {
		c.Contents = make(map[string]*core.Entry, len(e.Contents))
		for n, ch := range e.Contents {
			c.Contents[n] = cloneEntry(ch)
		}
	}
	return c
}

func isDirLike(e *core.Entry) bool {
	return e != nil && (e.Kind == core.EntryKind_Directory || e.Kind == core.EntryKind_PhantomDirectory)
}

func unsyncKind(k core.EntryKind) bool {
	return k == core.EntryKind_Untracked || k == core.EntryKind_Problematic || k == core.EntryKind_PhantomDirectory
}

// shallowEqual compares kind, digest, executability and link target.
func shallowEqual(a, b *core.Entry) bool {
	if a == nil || b == nil {
		return a == b
	}
	return a.Kind == b.Kind && a.Executable == b.Executable && bytes.Equal(a.Digest, b.Digest) && a.Target == b.Target
}

func deepEqual(a, b *core.Entry) bool {
	if !shallowEqual(a, b) {
		return false
	}
	if a == nil {
		return true
	}
	if len(a.Contents) != len(b.Contents) {
		return false
	}
	for n, ca := range a.Contents {
		cb, ok := b.Contents[n]
		if !ok || !deepEqual(ca, cb) {
			return false
		}
	}
	return true
}

// lookup resolves a root-relative path ("" = root).
func lookup(root *core.Entry, path string) *core.Entry {
	if path == "" || root == nil {
		if path == "" {
			return root
		}
		return nil
	}
	cur := root
	for _, comp := range strings.Split(path, "/") {
		if cur == nil || cur.Contents == nil {
			return nil
		}
		cur = cur.Contents[comp]
	}
	return cur
}

// setAt replaces the entry at path (nil = remove); parents must exist.
func setAt(root *core.Entry, path string, e *core.Entry) (*core.Entry, bool) {
	if path == "" {
		return e, true
	}
	comps := strings.Split(path, "/")
	cur := root
	for _, comp := range comps[:len(comps)-1] {
		if cur == nil || !isDirLike(cur) {
			return root, false
		}
		cur = cur.Contents[comp]
	}
	if cur == nil || !isDirLike(cur) {
		return root, false
	}
	if e == nil {
		delete(cur.Contents, comps[len(comps)-1])
	} else {
		if cur.Contents == nil {
			cur.Contents = map[string]*core.Entry{}
		}
		cur.Contents[comps[len(comps)-1]] = e
	}
	return root, true
}

// walk visits every entry in deterministic order.
func walk(e *core.Entry, path string, fn func(path string, e *core.Entry)) {
	if e == nil {
		return
	}
	fn(path, e)
	names := make([]string, 0, len(e.Contents))
	for n := range e.Contents {
		names = append(names, n)
	}
	sort.Strings(names)
	for _, n := range names {
		p := n
		if path != "" {
			p = path + "/" + n
		}
		walk(e.Contents[n], p, fn)
	}
}

// syncPart returns a copy without untracked / problematic sub-trees.
func syncPart(e *core.Entry) *core.Entry {
	if e == nil || e.Kind == core.EntryKind_Untracked || e.Kind == core.EntryKind_Problematic {
		return nil
	}
	c := &core.Entry{Kind: e.Kind, Executable: e.Executable, Target: e.Target}
	if e.Digest != nil {
		c.Digest = append([]byte(nil), e.Digest...)
	}
	if e.Kind == core.EntryKind_PhantomDirectory {
		c.Kind = core.EntryKind_Directory
	}
	if e.Contents != nil {
		c.Contents = map[string]*core.Entry{}
		for n, ch := range e.Contents {
			if s := syncPart(ch); s != nil {
				c.Contents[n] = s
			}
		}
	}
	return c
}

func hasUnsync(e *core.Entry) bool {
	found := false
	walk(e, "", func(_ string, x *core.Entry) {
		if unsyncKind(x.Kind) {
			found = true
		}
	})
	return found
}

// render produces a canonical one-line rendering of a tree.
func render(e *core.Entry) string {
	if e == nil {
		return "<nil>"
	}
	var b strings.Builder
	var rec func(e *core.Entry)
	rec = func(e *core.Entry) {
		switch e.Kind {
		case core.EntryKind_Directory, core.EntryKind_PhantomDirectory:
			if e.Kind == core.EntryKind_PhantomDirectory {
				b.WriteString("P")
			}
			b.WriteString("{")
			names := make([]string, 0, len(e.Contents))
			for n := range e.Contents {
				names = append(names, n)
			}
			sort.Strings(names)
			for i, n := range names {
				if i > 0 {
					b.WriteString(" ")
				}
				b.WriteString(n + ":")
				rec(e.Contents[n])
			}
			b.WriteString("}")
		case core.EntryKind_File:
			fmt.Fprintf(&b, "f%x", e.Digest[:3])
			if e.Executable {
				b.WriteString("x")
			}
		case core.EntryKind_SymbolicLink:
			b.WriteString("->" + e.Target)
		case core.EntryKind_Untracked:
			b.WriteString("U")
		case core.EntryKind_Problematic:
			b.WriteString("!")
		default:
			fmt.Fprintf(&b, "?%d", e.Kind)
		}
	}
	rec(e)
	return b.String()
}

// pathRelated reports whether a == b or one is an ancestor of the other.
func pathRelated(a, b string) bool {
	if a == b || a == "" || b == "" {
		return true
	}
	return strings.HasPrefix(a, b+"/") || strings.HasPrefix(b, a+"/")
}

func pathWithin(p, root string) bool {
	return root == "" || p == root || strings.HasPrefix(p, root+"/")
}

// destroyed lists the entries of old (rooted at base) that do not survive,
// shallow-equal at the same path, in new.
func destroyed(base string, old, new *core.Entry) map[string]*core.Entry {
	out := map[string]*core.Entry{}
	walk(old, base, func(p string, e *core.Entry) {
		rel := strings.TrimPrefix(strings.TrimPrefix(p, base), "/")
		n := lookup(new, rel)
		if !shallowEqual(e, n) {
			out[p] = e
		}
	})
	return out
}

// prune returns a prefix-closed sub-tree of e selected by mask bits.
func prune(e *core.Entry, mask uint64, depth int) *core.Entry {
	if e == nil {
		return nil
	}
	c := &core.Entry{Kind: e.Kind, Executable: e.Executable, Target: e.Target}
	if e.Digest != nil {
		c.Digest = append([]byte(nil), e.Digest...)
	}
	if e.Contents != nil {
		c.Contents = map[string]*core.Entry{}
		names := make([]string, 0, len(e.Contents))
		for n := range e.Contents {
			names = append(names, n)
		}
		sort.Strings(names)
		for i, n := range names {
			bit := uint(depth*5+i) % 64
			if mask&(1<<bit) != 0 {
				c.Contents[n] = prune(e.Contents[n], mask>>3|mask<<61, depth+1)
			}
		}
	}
	return c
}
