// Command helper is one simulated daemon process of procsim: it does nothing on
// its own; it executes the commands the simulator sends on standard input, one
// per line, and answers each with one line on standard output.
package main

import (
	"bufio"
	"fmt"
	"os"
	"strings"

	"github.com/mutagen-io/mutagen/pkg/daemon"
)

func main() {
	var lock *daemon.Lock
	in := bufio.NewScanner(os.Stdin)
	out := bufio.NewWriter(os.Stdout)
	reply := func(format string, args ...any) {
		fmt.Fprintf(out, format+"\n", args...)
		out.Flush()
	}
	reply("ready %d", os.Getpid())
	for in.Scan() {
		fields := strings.Fields(in.Text())
		if len(fields) == 0 {
			continue
		}
		switch fields[0] {
		case "acquire":
			if lock != nil {
				reply("already")
				continue
			}
			l, err := daemon.AcquireLock()
			if err != nil {
				reply("denied %v", err)
			} else {
				lock = l
				reply("acquired")
			}
		case "release":
			if lock == nil {
				reply("notheld")
				continue
			}
			err := lock.Release()
			lock = nil
			if err != nil {
				reply("error %v", err)
			} else {
				reply("released")
			}
		case "journal":
			// Append a two-part record while believing to hold the lock; the
			// parent checks that records never interleave.
			f, err := os.OpenFile(fields[1], os.O_APPEND|os.O_WRONLY|os.O_CREATE, 0o600)
			if err != nil {
				reply("error %v", err)
				continue
			}
			fmt.Fprintf(f, "begin %s\n", fields[2])
			fmt.Fprintf(f, "end %s\n", fields[2])
			f.Close()
			reply("journaled")
		case "exit":
			reply("bye")
			return
		}
	}
}
