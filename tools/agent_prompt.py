#!/usr/bin/env python3
"""Prints the prompt given to a sub-agent for one property (only the property text, nothing from /verif)."""
import json, sys
pid = sys.argv[1]
suffix = sys.argv[2] if len(sys.argv) > 2 else ""
avoid = sys.argv[3] if len(sys.argv) > 3 else ""
for line in open('/verif/properties.jsonl'):
    p = json.loads(line)
    if p['id'] == pid:
        break
wt = f"/tmp/wt-{pid}{suffix}"
avoid_text = (f"\n\nA colleague has already produced one such change: {avoid}. Yours must use a DIFFERENT code site and a different mechanism (ideally it breaks a different clause of the property, or the same clause through a different component).") if avoid else ""
print(f"""You are working alone in a scratch git worktree of the open-source project mutagen (a Go file-synchronization and network-forwarding tool) at {wt}. Work ONLY inside {wt} (never touch /repo or /verif, and do not read anything under /verif).

Environment: every shell call needs `export GOFLAGS=-mod=mod GOPROXY=off; unset GOSUMDB GOTOOLCHAIN` (there is no network; all modules and the go1.25.0 toolchain are cached; setting GOSUMDB=off or GOTOOLCHAIN=local breaks the toolchain selection). Use the default `go` command from inside {wt}. The code you care about is under {wt}/pkg. Files/lines mentioning the build tag `verif` or the package pkg/verif are inert instrumentation hooks: leave them alone.

Here is a semantic property of mutagen that currently holds:

  {p['id']}: {p['title']}
  Statement: {p['statement']}
  Quantified over: {p['quantifier']['text']}

YOUR TASK: produce a realistic change (a plausible regression or subtle bug, the kind a refactoring or an optimisation could introduce) to mutagen's non-test source code that BREAKS this property, while
  (1) the code still compiles: `cd {wt} && go build ./...`
  (2) the existing test suite still passes for the packages you touched and their dependents (at least: `cd {wt} && go test -mod=mod -vet=off -count=1 ./pkg/...` must not have new failures; note that on the untouched tree exactly these tests already fail and may be ignored: pkg/agent TestExecutableForPlatform*, pkg/synchronization/core TestScan and TestTransition),
  (3) the break needs something SPECIFIC to manifest - a particular interleaving, a crash or fault at a particular point, a multi-step sequence of operations, an unusual input, or two cooperating code sites that each look fine alone - NOT something that ordinary use or the simplest input would expose at once.{avoid_text}

Also write a DEMONSTRATION: a Go test file (or small Go program) inside the worktree that FAILS (or prints a clear failure) with your change applied and PASSES without it. Verify both directions yourself (toggle your source change with `git diff > patch.diff; git apply -R patch.diff` and `git apply patch.diff`, keeping the demo; do NOT use `git stash`: the stash list is shared with other worktrees of the same repository that other people are using right now).

Deliver, all inside {wt}:
  - {wt}/patch.diff : output of `git diff` containing ONLY your change to existing non-test source files (not the demo, not patch.diff itself). Keep the change small (ideally < 30 lines).
  - the demonstration file(s) (new files; say where they are),
  - {wt}/NOTES.md : which property clause it breaks, what exactly is needed for the break to manifest, the exact commands you ran and what they printed with and without the change.
Leave the worktree with your change APPLIED and the demo present. Finish by replying with a short summary (what you changed, what triggers it, how the demo shows it).""")
