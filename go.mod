module verif

go 1.26.8

require (
	github.com/anishathalye/porcupine v1.3.0
	github.com/mutagen-io/mutagen v0.0.0
	golang.org/x/sys v0.43.0
	google.golang.org/protobuf v1.36.11
)

require (
	github.com/bmatcuk/doublestar/v4 v4.10.0 // indirect
	github.com/eknkc/basex v1.0.1 // indirect
	github.com/google/go-cmp v0.7.0 // indirect
	github.com/google/uuid v1.6.0 // indirect
	github.com/klauspost/compress v1.18.5 // indirect
	github.com/klauspost/cpuid/v2 v2.2.10 // indirect
	github.com/mutagen-io/extstat v0.0.0-20210224131814-32fa3f057fa8 // indirect
	github.com/mutagen-io/gopass v0.0.0-20230214181532-d4b7cdfe054c // indirect
	github.com/zeebo/xxh3 v1.1.0 // indirect
	go.yaml.in/yaml/v4 v4.0.0-rc.4 // indirect
	golang.org/x/term v0.42.0 // indirect
	golang.org/x/text v0.36.0 // indirect
)

replace github.com/mutagen-io/mutagen => /repo
