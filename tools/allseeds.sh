#!/bin/sh
# usage: allseeds.sh [budget-seconds]   (meant for `vp run --with-repo -- tools/allseeds.sh 25`)
# Regression run of every seeded change against the check of its property: applies each patch to a scratch
# copy of the repository ($VP_RUN_REPO; /repo itself only when run by hand), runs the quick check with the
# given per-worker budget, undoes the patch. Prints one line per change: caught (exit 1) / MISSED / trouble.
budget=${1:-25}
export GOFLAGS=-mod=mod GOPROXY=off GOSUMDB=off GOTOOLCHAIN=local
repo=${VP_RUN_REPO:-/repo}
if [ -n "$VP_RUN_REPO" ]; then sed -i "s#=> /repo#=> $VP_RUN_REPO#" go.mod; fi
./setup.sh >/dev/null || exit 2
mkdir -p /tmp/allseeds-ev.$$; cp evidence/*.json /tmp/allseeds-ev.$$/ 2>/dev/null
for name in $(jq -r '.[].name' seeded/index.json); do
  prop=$(jq -r --arg n "$name" '.[] | select(.name==$n) | (.check // .property)' seeded/index.json)
  patch=$PWD/seeded/$name/patch.diff
  if ! git -C $repo apply --check "$patch" 2>/dev/null; then echo "$name $prop PATCH-DOES-NOT-APPLY"; continue; fi
  git -C $repo apply "$patch"
  out=$(./bin/check $prop --budget $budget 2>&1); code=$?
  git -C $repo checkout -- .
  rule=$(echo "$out" | grep -m1 "rule=" | sed 's/^ *//' | cut -c1-90)
  case $code in
    1) echo "$name $prop caught :: $rule" ;;
    0) echo "$name $prop MISSED :: $(echo "$out" | tail -1 | cut -c1-100)" ;;
    *) echo "$name $prop TROUBLE($code) :: $(echo "$out" | head -3 | tr '\n' ' ' | cut -c1-200)" ;;
  esac
done
cp /tmp/allseeds-ev.$$/*.json evidence/ 2>/dev/null; rm -rf /tmp/allseeds-ev.$$
