package procsim

import (
	"testing"

	"verif/simkit"
)

func TestWorker(t *testing.T) { simkit.WorkerMain(t, Engine{}) }
