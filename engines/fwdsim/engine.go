// Package fwdsim runs mutagen's real forwarding manager and controller over
// simulated listeners, dialers and connections inside a synctest bubble.
package fwdsim

import (
	"bufio"
	"context"
	"errors"
	"fmt"
	"io"
	"net"
	"os"
	"strings"
	"sync"
	"testing"
	"time"

	"github.com/mutagen-io/mutagen/pkg/forwarding"
	"github.com/mutagen-io/mutagen/pkg/logging"
	"github.com/mutagen-io/mutagen/pkg/multiplexing"
	"github.com/mutagen-io/mutagen/pkg/selection"
	urlpkg "github.com/mutagen-io/mutagen/pkg/url"

	"verif/simkit"
)

// Engine implements simkit.Engine.
type Engine struct{}

func (Engine) Name() string { return "fwdsim" }

func (Engine) Scenarios(property string) []string {
	if property == "C33" {
		return []string{"relay", "relay-faults", "relay-mux"}
	}
	return nil
}

func (Engine) Generate(property, scenario string, seed uint64, tier string) *simkit.Plan {
	p := &simkit.Plan{Engine: "fwdsim", Scenario: scenario, Property: property, Seed: seed, Cfg: map[string]int64{}}
	r := simkit.NewRand(seed, 1)
	c := p.Cfg
	c["frag"] = int64(simkit.Pick(r, []int{1, 7, 100, 4096, 0}))
	c["short"] = int64(simkit.Pick(r, []int{0, 1, 9}))
	c["delay_us"] = int64(simkit.Pick(r, []int{0, 0, 100}))
	c["sched_sticky"] = int64(simkit.Pick(r, []int{0, 60}))
	// Bounded pipes: a write blocks when the pipe is full, and a write cut off
	// by a reset has then already put part of its buffer on the wire.
	c["linkcap"] = int64(simkit.Pick(r, []int{0, 0, 16, 300}))
	n := r.Range(1, 6)
	if tier == "thorough" {
		n = r.Range(1, 16)
	}
	maxPayload := 3000
	if c["frag"] == 1 {
		maxPayload = 300
	}
	if scenario == "relay-mux" {
		// The destination is reached through a remote endpoint: every
		// forwarded connection is a stream of a real multiplexer pair, with a
		// second relay on the far side. Payloads may exceed the stream window.
		c["over_mux"] = 1
		c["frag"] = int64(simkit.Pick(r, []int{0, 4096, 1000}))
		c["short"] = int64(simkit.Pick(r, []int{0, 0, 9}))
		c["linkcap"] = 0
		n = r.Range(1, 3)
		maxPayload = 3000
	}
	for i := 0; i < n; i++ {
		// conn: client bytes, server bytes, client half-closes, server
		// half-closes, who speaks first (0 client, 1 server, 2 both at once)
		op := simkit.Op{Actor: fmt.Sprintf("conn%d", i), Kind: "conn", N: []int64{
			int64(r.SmallBiased(maxPayload)), int64(r.SmallBiased(maxPayload)), int64(r.Intn(2)), int64(r.Intn(2)), int64(r.Intn(3)), int64(r.Range(0, 3000)),
		}}
		if scenario == "relay-mux" && r.Chance(1, 2) {
			// One side says little and half-closes, the other answers with
			// more than one stream window.
			big := int64(r.Range(70000, 200000))
			if r.Chance(1, 2) {
				op.N[0], op.N[1], op.N[2], op.N[4] = int64(r.Range(1, 300)), big, 1, 0
			} else {
				op.N[0], op.N[1], op.N[3], op.N[4] = big, int64(r.Range(1, 300)), 1, 1
			}
		}
		p.Ops = append(p.Ops, op)
	}
	if scenario == "relay-faults" {
		for k := r.Range(1, 3); k > 0; k-- {
			switch r.Intn(6) {
			case 4:
				// The transport under the source endpoint fails: the forwarding
				// loop ends (closing what it holds) and the session reconnects.
				p.Ops = append(p.Ops, simkit.Op{Actor: "admin", Kind: "transport-error", N: []int64{int64(r.Range(0, 2000))}})
			case 5:
				p.Ops = append(p.Ops, simkit.Op{Actor: "admin", Kind: "pause", N: []int64{int64(r.Range(0, 2000))}},
					simkit.Op{Actor: "admin", Kind: "resume", N: []int64{int64(r.Range(0, 30000))}})
			case 0:
				p.Faults = append(p.Faults, simkit.Fault{Kind: "reset", Key: fmt.Sprintf("conn%d.%s", r.Intn(n), simkit.Pick(r, []string{"client", "server"})), Nth: 1, Arg: int64(r.Range(0, 200))})
			case 1:
				p.Faults = append(p.Faults, simkit.Fault{Kind: "dial_error", Key: "destination", Nth: r.Range(1, n)})
			case 2:
				p.Ops = append(p.Ops, simkit.Op{Actor: "admin", Kind: "pause", N: []int64{int64(r.Range(0, 2000))}})
			case 3:
				p.Ops = append(p.Ops, simkit.Op{Actor: "admin", Kind: "terminate", N: []int64{int64(r.Range(0, 2000))}})
			}
		}
	}
	return p
}

func (Engine) Execute(t *testing.T, plan *simkit.Plan) *simkit.Result { return execRelay(t, plan) }

var current *harness

type handler struct{}

func (handler) Connect(ctx context.Context, logger *logging.Logger, url *urlpkg.URL, prompter, session string,
	version forwarding.Version, configuration *forwarding.Configuration, source bool) (forwarding.Endpoint, error) {
	h := current
	if h == nil {
		return nil, errors.New("no simulation")
	}
	h.s.Gate("ctl", "connect")
	ep := &endpoint{h: h, source: source, transportErrors: make(chan error, 1), shut: make(chan struct{})}
	h.mu.Lock()
	if source {
		h.sourceEP = ep
	}
	h.mu.Unlock()
	return ep, nil
}

func init() { forwarding.ProtocolHandlers[urlpkg.Protocol_Local] = handler{} }

type endpoint struct {
	h               *harness
	source          bool
	transportErrors chan error
	shut            chan struct{}
	once            sync.Once
}

func (e *endpoint) TransportErrors() <-chan error { return e.transportErrors }

func (e *endpoint) Shutdown() error {
	e.once.Do(func() { close(e.shut) })
	return nil
}

// Open accepts (source) or dials (destination) one connection.
func (e *endpoint) Open() (net.Conn, error) {
	h := e.h
	if e.source {
		select {
		case c := <-h.incoming:
			h.s.Gate("ctl", "accept")
			h.mu.Lock()
			h.accepted++
			h.acceptedConn = c
			h.mu.Unlock()
			return c.clientLink.B, nil
		case <-e.shut:
			return nil, errors.New("listener closed")
		}
	}
	h.s.Gate("ctl", "dial")
	h.mu.Lock()
	c := h.acceptedConn
	h.acceptedConn = nil
	h.dials++
	n := h.dials
	h.mu.Unlock()
	if f := h.s.MatchFault("dial_error", "destination", n); f != nil {
		h.mu.Lock()
		h.disturbed = true
		h.mu.Unlock()
		if c != nil {
			h.mu.Lock()
			c.dialFailed = true
			h.mu.Unlock()
			close(c.dialed)
		}
		return nil, errors.New("injected dial failure")
	}
	select {
	case <-e.shut:
		return nil, errors.New("dialer closed")
	default:
	}
	if c == nil {
		return nil, errors.New("no pending connection")
	}
	c.serverLink = h.s.NewLink(c.name+".s", h.linkOpts(c.name+".server"))
	h.mu.Lock()
	h.paired++
	c.paired = true
	h.mu.Unlock()
	close(c.dialed)
	if h.muxNear != nil {
		// The connection to the destination is a multiplexed stream; the far
		// relay (below) accepts it and forwards to the server's link.
		h.muxPending <- c
		ctx, cancel := context.WithTimeout(context.Background(), 30*time.Second+13*time.Microsecond)
		defer cancel()
		st, err := h.muxNear.OpenStream(ctx)
		if err != nil {
			return nil, fmt.Errorf("unable to open stream: %w", err)
		}
		return st, nil
	}
	return c.serverLink.A, nil
}

// farRelay is the remote endpoint's side of the relay-mux scenario: it accepts
// streams and forwards each to the server link of the connection dialled for it
// (dials are sequential, so the order is theirs), with the real ForwardAndClose.
func (h *harness) farRelay() {
	for {
		st, err := h.muxFar.AcceptStream(context.Background())
		if err != nil {
			return
		}
		c := <-h.muxPending
		go forwarding.ForwardAndClose(context.Background(), st, c.serverLink.A, nil, nil)
	}
}

type conn struct {
	name                       string
	op                         simkit.Op
	clientLink, serverLink     *simkit.Link
	dialed                     chan struct{}
	paired, dialFailed         bool
	clientGot, serverGot       []byte
	clientEOF, serverEOF       bool
	clientErr, serverErr       error
	clientDone, serverDone     bool
	clientSent, serverSent     int
	faulted                    bool
	clientPhases, serverPhases bool
	clientPhaseDone            chan struct{} // closed when the client has finished writing and probing
	serverPhaseDone            chan struct{}
	// simulated times of half-closes and end-of-stream probes (-1 = never)
	cwAt, probeStart, probeEnd map[byte]time.Duration
}

// rendezvous makes a peer keep its connection open until the other peer has
// finished writing and probing for end-of-stream (a full close also ends the
// stream and would otherwise race with the other side's probe); it gives up
// after 5 s of simulated time (faults).
func (h *harness) rendezvous(c *conn, server bool) {
	for i := 0; i < 5000; i++ {
		h.mu.Lock()
		other := c.serverPhases
		if server {
			other = c.clientPhases
		}
		gone := c.dialFailed || c.faulted
		h.mu.Unlock()
		if other || gone || h.s.PassThrough() {
			return
		}
		// (Woken by the other peer's announcement at the instant it is made,
		// whichever of the two runs first inside a step; the tick only serves
		// the conditions that have no announcement.)
		otherDone := c.clientPhaseDone
		if !server {
			otherDone = c.serverPhaseDone
		}
		select {
		case <-otherDone:
			return
		case <-time.After(time.Millisecond + 3*time.Microsecond):
		}
	}
}

type harness struct {
	s                       *simkit.Sim
	errorEP                 *endpoint // the source endpoint whose transport was made to fail last
	plan                    *simkit.Plan
	mu                      sync.Mutex
	incoming                chan *conn
	conns                   []*conn
	accepted, dials, paired int
	acceptedConn            *conn
	sourceEP                *endpoint
	disturbed               bool // a pause/terminate/dial failure/reset happened
	pendingClosedCheck      string
	// relay-mux: the multiplexer pair between the controller and the far relay
	muxNear, muxFar *multiplexing.Multiplexer
	muxIdle         func() bool
	muxPending      chan *conn
}

func (h *harness) linkOpts(key string) simkit.LinkOpts {
	c := h.plan.Cfg
	o := simkit.LinkOpts{FragMax: int(c["frag"]), ShortMax: int(c["short"]), Delay: time.Duration(c["delay_us"]) * time.Microsecond, Capacity: int(c["linkcap"])}
	for _, f := range h.s.FaultsOfKind("reset") {
		if f.Key == key {
			o.CutAt = map[string]int{"ab": int(f.Arg), "ba": int(f.Arg)}
		}
	}
	return o
}

func pattern(connIdx int, dir byte, i int) byte { return byte(i*31 + connIdx*7 + int(dir)*101 + i>>8) }

func payload(connIdx int, dir byte, n int) []byte {
	b := make([]byte, n)
	for i := range b {
		b[i] = pattern(connIdx, dir, i)
	}
	return b
}

// peer is the body of a client or a server: it sends its payload, optionally
// half-closes, and reads what the other side sends.
func (h *harness) peer(c *conn, idx int, end *simkit.LinkEnd, label string, dir byte, send, expect int, halfClose, peerHalfCloses bool, speakFirst bool) (got []byte, sawEOF bool, err error) {
	s := h.s
	write := func() error {
		data := payload(idx, dir, send)
		for len(data) > 0 {
			s.Gate(label, "write")
			n := min(len(data), 1+s.Choose(700))
			if _, err := end.Write(data[:n]); err != nil {
				return err
			}
			data = data[n:]
		}
		if halfClose {
			s.Gate(label, "closewrite")
			end.CloseWrite()
			h.mu.Lock()
			c.cwAt[dir] = s.Now()
			h.mu.Unlock()
		}
		return nil
	}
	read := func() error {
		buf := make([]byte, 512)
		for len(got) < expect {
			n, err := end.Read(buf[:min(len(buf), expect-len(got))])
			got = append(got, buf[:n]...)
			if err != nil {
				return err
			}
		}
		// After the expected bytes: EOF iff the other side half-closed.
		h.mu.Lock()
		c.probeStart[dir] = s.Now()
		h.mu.Unlock()
		end.SetReadDeadline(time.Now().Add(300*time.Millisecond + 77*time.Microsecond))
		n, err := end.Read(buf[:1])
		end.SetReadDeadline(time.Time{})
		h.mu.Lock()
		c.probeEnd[dir] = s.Now()
		h.mu.Unlock()
		if n > 0 {
			got = append(got, buf[:n]...)
			return errors.New("extra data")
		}
		if err == io.EOF {
			sawEOF = true
			return nil
		}
		if errors.Is(err, os.ErrDeadlineExceeded) {
			return nil
		}
		return err
	}
	if speakFirst {
		if err = write(); err == nil {
			err = read()
		}
	} else {
		if err = read(); err == nil {
			err = write()
		}
	}
	return got, sawEOF, err
}

func execRelay(t *testing.T, plan *simkit.Plan) *simkit.Result {
	dataDir := os.Getenv("MUTAGEN_DATA_DIRECTORY")
	if dataDir == "" {
		d, _ := simkit.MkdirTemp("/dev/shm", "verif-fwdsim-data-")
		dataDir = d
		os.Setenv("MUTAGEN_DATA_DIRECTORY", d)
	}
	os.RemoveAll(dataDir)
	os.MkdirAll(dataDir, 0o700)
	var nontrivial bool
	res := simkit.Run(t, plan, simkit.Options{MaxSteps: 100000, Horizon: 10 * time.Minute, RealTimeout: 90 * time.Second}, func(s *simkit.Sim) {
		h := &harness{s: s, plan: plan, incoming: make(chan *conn)}
		current = h
		defer func() { current = nil }()
		if plan.C("over_mux") == 1 {
			// The carrier between the two multiplexers is a plain in-memory
			// pipe without gates: the multiplexer's reader holds a stream's
			// receive lock while the rest of a data frame is on its way, and a
			// frame cut in two by a scheduler step would leave a Read waiting
			// for that sync.Mutex (invisible to the bubble). What the scheduler
			// decides in this scenario is everything outside the pair.
			ab, ba := newMemPipe(), newMemPipe()
			h.muxIdle = func() bool { return ab.idle() && ba.idle() }
			h.muxNear = multiplexing.Multiplex(&memCarrier{in: ba, out: ab, r: bufio.NewReader(ba)}, false, nil)
			h.muxFar = multiplexing.Multiplex(&memCarrier{in: ab, out: ba, r: bufio.NewReader(ab)}, true, nil)
			h.muxPending = make(chan *conn, 64)
			go h.farRelay()
			defer func() { h.muxNear.Close(); h.muxFar.Close() }()
		}
		logger := logging.NewLogger(logging.LevelDebug, io.Discard)
		mgr, err := forwarding.NewManager(logger)
		if err != nil {
			panic(err)
		}
		src := &urlpkg.URL{Kind: urlpkg.Kind_Forwarding, Protocol: urlpkg.Protocol_Local, Path: "tcp:127.0.0.1:9001"}
		dst := &urlpkg.URL{Kind: urlpkg.Kind_Forwarding, Protocol: urlpkg.Protocol_Local, Path: "tcp:127.0.0.1:9002"}
		var mu sync.Mutex
		running := 0
		start := func(name string, fn func()) {
			mu.Lock()
			running++
			mu.Unlock()
			s.Go(name, func() {
				defer func() { mu.Lock(); running--; mu.Unlock() }()
				fn()
			})
		}
		var sel *selection.Selection
		created := make(chan struct{})
		start("admin", func() {
			s.Gate("admin", "create")
			id, err := mgr.Create(context.Background(), src, dst, &forwarding.Configuration{}, &forwarding.Configuration{}, &forwarding.Configuration{}, "fwd", nil, false, "")
			if err != nil {
				panic(err)
			}
			sel = &selection.Selection{Specifications: []string{id}}
			close(created)
			for _, op := range plan.Ops {
				if op.Actor != "admin" {
					continue
				}
				time.Sleep(time.Duration(op.Int(0))*time.Microsecond*100 + 19*time.Microsecond)
				s.Gate("admin", op.Kind)
				h.mu.Lock()
				h.disturbed = true
				h.mu.Unlock()
				switch op.Kind {
				case "pause":
					err := mgr.Pause(context.Background(), sel, "")
					s.Logf("admin", "pause -> %v", err)
				case "terminate":
					err := mgr.Terminate(context.Background(), sel, "")
					s.Logf("admin", "terminate -> %v", err)
				case "resume":
					err := mgr.Resume(context.Background(), sel, "")
					s.Logf("admin", "resume -> %v", err)
					s.Count("probe.resumed", 1)
				case "transport-error":
					h.mu.Lock()
					ep := h.sourceEP
					h.mu.Unlock()
					if ep != nil {
						select {
						case ep.transportErrors <- errors.New("simulated transport failure"):
							h.mu.Lock()
							h.errorEP = ep
							h.mu.Unlock()
							s.Count("fault.transport_error", 1)
							s.Logf("admin", "the source transport fails")
						default:
						}
					}
				}
				// After cancellation every forwarded connection must be closed
				// (checked at the next quiescent point: the relaying
				// goroutines are cancelled, not awaited).
				h.mu.Lock()
				h.pendingClosedCheck = "after " + op.Kind
				h.mu.Unlock()
			}
		})
		idx := 0
		for _, op := range plan.Ops {
			if op.Kind != "conn" {
				continue
			}
			i := idx
			idx++
			c := &conn{name: op.Actor, op: op, dialed: make(chan struct{}), clientPhaseDone: make(chan struct{}), serverPhaseDone: make(chan struct{}),
				cwAt: map[byte]time.Duration{'c': -1, 's': -1}, probeStart: map[byte]time.Duration{'c': -1, 's': -1}, probeEnd: map[byte]time.Duration{'c': -1, 's': -1}}
			h.conns = append(h.conns, c)
			clientBytes, serverBytes := int(op.Int(0)), int(op.Int(1))
			clientHalf, serverHalf := op.Int(2) == 1, op.Int(3) == 1
			order := op.Int(4)
			start(c.name+".client", func() {
				<-created
				time.Sleep(time.Duration(op.Int(5))*time.Microsecond + 3*time.Microsecond)
				s.Gate(c.name+".client", "connect")
				c.clientLink = s.NewLink(c.name+".c", h.linkOpts(c.name+".client"))
				select {
				case h.incoming <- c:
				case <-time.After(20*time.Second + 7*time.Microsecond):
					// The session is paused, terminated or reconnecting.
					h.mu.Lock()
					c.clientDone = true
					c.faulted = true
					h.mu.Unlock()
					c.clientLink.A.Close()
					c.clientLink.B.Close()
					return
				}
				got, eof, err := h.peer(c, i, c.clientLink.A, c.name+".client", 'c', clientBytes, serverBytes, clientHalf, serverHalf, order != 1)
				h.mu.Lock()
				c.clientPhases = true
				close(c.clientPhaseDone)
				h.mu.Unlock()
				h.rendezvous(c, false)
				s.Gate(c.name+".client", "close")
				c.clientLink.A.Close()
				h.mu.Lock()
				c.clientGot, c.clientEOF, c.clientErr, c.clientDone = got, eof, err, true
				h.mu.Unlock()
				s.Logf(c.name+".client", "done: got %d eof=%v err=%v", len(got), eof, err != nil)
			})
			start(c.name+".server", func() {
				select {
				case <-c.dialed:
				case <-time.After(60*time.Second + 11*time.Microsecond):
					h.mu.Lock()
					c.serverDone = true
					h.mu.Unlock()
					return
				}
				h.mu.Lock()
				failed := c.dialFailed
				h.mu.Unlock()
				if failed {
					h.mu.Lock()
					c.serverDone, c.faulted = true, true
					h.mu.Unlock()
					return
				}
				got, eof, err := h.peer(c, i, c.serverLink.B, c.name+".server", 's', serverBytes, clientBytes, serverHalf, clientHalf, order != 0)
				h.mu.Lock()
				c.serverPhases = true
				close(c.serverPhaseDone)
				h.mu.Unlock()
				h.rendezvous(c, true)
				s.Gate(c.name+".server", "close")
				c.serverLink.B.Close()
				h.mu.Lock()
				c.serverGot, c.serverEOF, c.serverErr, c.serverDone = got, eof, err, true
				h.mu.Unlock()
				s.Logf(c.name+".server", "done: got %d eof=%v err=%v", len(got), eof, err != nil)
			})
		}
		s.Invariant = func() {
			h.mu.Lock()
			when := h.pendingClosedCheck
			h.pendingClosedCheck = ""
			errEP := h.errorEP
			h.mu.Unlock()
			if when == "after transport-error" && errEP != nil {
				// The failure is handed to the controller through a channel: until
				// its loop has taken it - it may stand at one of the simulator's own
				// gates, or serve another ready event first - nothing is overdue.
				ctlParked := false
				for _, g := range s.Parked() {
					ctlParked = ctlParked || strings.HasPrefix(g, "ctl ")
				}
				if len(errEP.transportErrors) > 0 || ctlParked {
					h.mu.Lock()
					if h.pendingClosedCheck == "" {
						h.pendingClosedCheck = when
					}
					h.mu.Unlock()
					return
				}
			}
			if when != "" && h.muxIdle != nil && !h.muxIdle() {
				// (The far relay learns of a cancellation through the
				// multiplexer: while its carrier still has bytes on their way,
				// the far connections are not overdue.)
				h.mu.Lock()
				if h.pendingClosedCheck == "" {
					h.pendingClosedCheck = when
				}
				h.mu.Unlock()
				return
			}
			if when != "" {
				h.checkAllClosed(when)
			}
		}
		stop := s.Loop(func() bool { mu.Lock(); defer mu.Unlock(); return running == 0 })
		if stop != simkit.StopCond {
			s.Violate("C33", "hang", "relay", "the workload did not finish (%v); parked: %v", stop, s.Parked())
		}
		// Let the controller finish closing after the peers closed.
		s.SetBudget(10000, 30*time.Second)
		settle := s.Now() + 2*time.Second + 41*time.Microsecond
		s.Loop(func() bool { return s.Now() >= settle })
		h.finalChecks(mgr, sel)
		nontrivial = h.paired >= 1
		s.Finish()
		mgr.Shutdown()
		for _, c := range h.conns {
			for _, l := range []*simkit.Link{c.clientLink, c.serverLink} {
				if l != nil {
					l.A.Close()
					l.B.Close()
				}
			}
		}
		s.WaitActors(2 * time.Minute)
	})
	res.NonTrivial = nontrivial
	res.Fingerprint = res.JournalHash
	return res
}

// checkAllClosed: after forwarding was cancelled, the controller-side ends of
// every forwarded connection are closed.
func (h *harness) checkAllClosed(when string) {
	h.mu.Lock()
	defer h.mu.Unlock()
	for _, c := range h.conns {
		if !c.paired {
			continue
		}
		if !c.clientLink.B.Closed() || !c.serverLink.A.Closed() {
			h.s.Violate("C33", "connection-left-open", when, "%s: %s - the forwarded connection is still open (incoming closed=%v, outgoing closed=%v)", c.name, when, c.clientLink.B.Closed(), c.serverLink.A.Closed())
		}
	}
}

func (h *harness) finalChecks(mgr *forwarding.Manager, sel *selection.Selection) {
	s := h.s
	h.mu.Lock()
	defer h.mu.Unlock()
	var delivered uint64
	clean := !h.disturbed
	idx := -1
	for _, c := range h.conns {
		idx++
		reset := false
		for _, f := range s.FaultsOfKind("reset") {
			if strings.HasPrefix(f.Key, c.name+".") {
				reset = true
			}
		}
		if !c.paired {
			continue
		}
		if reset || c.faulted {
			clean = false
		}
		// At rest nothing the controller holds is left open.
		if c.clientDone && c.serverDone {
			if !c.clientLink.B.Closed() || !c.serverLink.A.Closed() {
				s.Violate("C33", "connection-left-open", "rest", "%s: both peers are done and the session is at rest, but the controller still holds the connection open (incoming closed=%v, outgoing closed=%v)", c.name, c.clientLink.B.Closed(), c.serverLink.A.Closed())
			}
		}
		clientBytes, serverBytes := int(c.op.Int(0)), int(c.op.Int(1))
		wantAtServer, wantAtClient := payload(idx, 'c', clientBytes), payload(idx, 's', serverBytes)
		// Whatever arrived is a prefix of what was sent (never foreign bytes).
		if !isPrefix(c.serverGot, wantAtServer) {
			s.Violate("C33", "wrong-bytes", "client-to-server", "%s: the server received bytes that the client did not send (got %d bytes)", c.name, len(c.serverGot))
		}
		if !isPrefix(c.clientGot, wantAtClient) {
			s.Violate("C33", "wrong-bytes", "server-to-client", "%s: the client received bytes that the server did not send (got %d bytes)", c.name, len(c.clientGot))
		}
		delivered += uint64(len(c.serverGot) + len(c.clientGot))
		if reset || h.disturbed || c.faulted {
			continue
		}
		// Fault-free connection: exact delivery and exact half-close relay.
		if c.clientErr != nil || c.serverErr != nil {
			s.Violate("C33", "fault-free-connection-failed", "relay", "%s: client err %v, server err %v", c.name, c.clientErr, c.serverErr)
			continue
		}
		if len(c.serverGot) != clientBytes || len(c.clientGot) != serverBytes {
			s.Violate("C33", "bytes-lost", "relay", "%s: client sent %d, server got %d; server sent %d, client got %d", c.name, clientBytes, len(c.serverGot), serverBytes, len(c.clientGot))
		}
		clientHalf, serverHalf := c.op.Int(2) == 1, c.op.Int(3) == 1
		order := c.op.Int(4)
		// The side that reads last observes the other's half-close exactly.
		_ = order
		// A side that reads before the other has written and half-closed can
		// only probe after the expected bytes arrived, i.e. after the write.
		_, _ = clientHalf, serverHalf
		// X half-closed before Y began probing for end-of-stream: Y must see
		// EOF. X had not half-closed (nor closed: peers keep their connection
		// open until both are done) when Y's probe ended: Y must not.
		eofRule := func(x, y byte, dirName string, sawEOF bool) {
			cw, ps, pe := c.cwAt[x], c.probeStart[y], c.probeEnd[y]
			if ps < 0 {
				return
			}
			if cw >= 0 && cw < ps && !sawEOF {
				s.Violate("C33", "half-close-not-relayed", dirName, "%s: the sender half-closed at %v, the receiver probed for end-of-stream from %v to %v and saw none", c.name, cw, ps, pe)
			}
			if (cw < 0 || cw > pe) && sawEOF {
				s.Violate("C33", "spurious-end-of-stream", dirName, "%s: the receiver saw end-of-stream (probe %v..%v) although the sender had not half-closed (half-close at %v)", c.name, ps, pe, cw)
			}
			if cw >= 0 && cw < ps {
				s.Count("probe.half_close_relayed", 1)
			}
		}
		eofRule('c', 's', "client-to-server", c.serverEOF)
		eofRule('s', 'c', "server-to-client", c.clientEOF)
		s.Count("probe.clean_connections", 1)
	}
	if sel == nil {
		return
	}
	_, states, err := mgr.List(context.Background(), sel, 0)
	if err != nil || len(states) != 1 {
		return
	}
	st := states[0]
	if st.OpenConnections != 0 && h.allDone() {
		s.Violate("C33", "open-connection-count", "state", "all connections are finished but the session reports %d open connections", st.OpenConnections)
	}
	// Whatever happened to a connection, every byte a peer received went through
	// the forwarder and was counted on the way (a write that failed after
	// putting part of its buffer on the wire still forwarded that part).
	// (Unless the forwarding loop was restarted by a pause, a transport failure or
	// a termination: the statistics start again from zero with each loop.)
	if !h.disturbed && st.TotalInboundData+st.TotalOutboundData < delivered {
		s.Violate("C33", "byte-count-below-delivered", "state", "the peers received %d bytes in total, the session statistics count only %d inbound + %d outbound", delivered, st.TotalInboundData, st.TotalOutboundData)
	}
	if clean && st.Status == forwarding.Status_ForwardingConnections {
		if st.TotalConnections != uint64(h.paired) {
			s.Violate("C33", "total-connection-count", "state", "%d connections were forwarded, the session reports %d", h.paired, st.TotalConnections)
		}
		if st.TotalInboundData+st.TotalOutboundData != delivered {
			s.Violate("C33", "byte-count", "state", "%d bytes were delivered, the session reports %d inbound + %d outbound", delivered, st.TotalInboundData, st.TotalOutboundData)
		}
		s.Count("probe.counters_checked", 1)
	}
}

func (h *harness) allDone() bool {
	for _, c := range h.conns {
		if c.paired && !(c.clientDone && c.serverDone) {
			return false
		}
	}
	return true
}

func isPrefix(got, want []byte) bool {
	if len(got) > len(want) {
		return false
	}
	for i := range got {
		if got[i] != want[i] {
			return false
		}
	}
	return true
}

// memPipe is an unbounded in-memory byte pipe (one direction of the carrier
// between the two multiplexers of the relay-mux scenario).
type memPipe struct {
	mu     sync.Mutex
	buf    []byte
	closed bool
	ready  chan struct{}
}

func newMemPipe() *memPipe { return &memPipe{ready: make(chan struct{}, 1)} }

func (p *memPipe) idle() bool {
	p.mu.Lock()
	defer p.mu.Unlock()
	return len(p.buf) == 0
}

func (p *memPipe) Read(b []byte) (int, error) {
	for {
		p.mu.Lock()
		if len(p.buf) > 0 {
			n := copy(b, p.buf)
			p.buf = p.buf[n:]
			p.mu.Unlock()
			return n, nil
		}
		closed := p.closed
		p.mu.Unlock()
		if closed {
			return 0, io.EOF
		}
		<-p.ready
	}
}

func (p *memPipe) write(b []byte) (int, error) {
	p.mu.Lock()
	if p.closed {
		p.mu.Unlock()
		return 0, io.ErrClosedPipe
	}
	p.buf = append(p.buf, b...)
	p.mu.Unlock()
	select {
	case p.ready <- struct{}{}:
	default:
	}
	return len(b), nil
}

func (p *memPipe) close() {
	p.mu.Lock()
	p.closed = true
	p.mu.Unlock()
	select {
	case p.ready <- struct{}{}:
	default:
	}
}

// memCarrier is a multiplexer carrier over two memPipes.
type memCarrier struct {
	in, out *memPipe
	r       *bufio.Reader
}

func (c *memCarrier) Read(p []byte) (int, error)  { return c.r.Read(p) }
func (c *memCarrier) ReadByte() (byte, error)     { return c.r.ReadByte() }
func (c *memCarrier) Discard(n int) (int, error)  { return c.r.Discard(n) }
func (c *memCarrier) Write(p []byte) (int, error) { return c.out.write(p) }
func (c *memCarrier) Close() error                { c.out.close(); c.in.close(); return nil }
