// Package syncsim runs mutagen's real synchronization manager and controller
// inside a synctest bubble, over model endpoints (in-memory trees whose
// transition outcomes the plan chooses) or over real local endpoints on tmpfs
// with syscall-level gates, a simulated user and injected faults.
package syncsim

import (
	"fmt"
	"testing"

	"verif/simkit"
)

// Engine implements simkit.Engine.
type Engine struct{}

func (Engine) Name() string { return "syncsim" }

func (Engine) Scenarios(property string) []string {
	switch property {
	case "C01":
		return []string{"model", "disk", "disk-edits", "disk-remote", "model-outcomes", "disk-crash"}
	case "C02":
		return []string{"model", "disk", "disk-edits", "readonly"}
	case "C03":
		return []string{"model-untracked", "disk-untracked"}
	case "C04":
		return []string{"model", "disk", "disk-remote", "model-outcomes", "disk-docker"}
	case "C05":
		return []string{"model-outcomes", "model-outcomes-enum", "model-crash"}
	case "C06":
		return []string{"model", "model-untracked"}
	case "C08":
		return []string{"disk", "disk-untracked", "disk-edits", "disk-remote"}
	case "C11":
		return []string{"model-halt", "disk-halt"}
	case "C16":
		return []string{"links-scan", "links-mixed"}
	case "C17":
		return []string{"disk-escape"}
	case "C18":
		return []string{"model-exec", "disk-exec"}
	case "C29":
		return []string{"lifecycle", "disk-lifecycle"}
	case "C21":
		return append(componentScenarios(property), "disk-remote")
	case "C09":
		return append(componentScenarios(property), "disk", "disk-remote", "disk-fulldev")
	case "C10":
		return append(componentScenarios(property), "disk-fulldev", "disk-crash")
	case "C12":
		return append(componentScenarios(property), "disk", "disk-edits")
	case "C27":
		return append(componentScenarios(property), "model-crash", "disk-crash")
	}
	return componentScenarios(property)
}

func (Engine) Generate(property, scenario string, seed uint64, tier string) *simkit.Plan {
	p := &simkit.Plan{Engine: "syncsim", Scenario: scenario, Property: property, Seed: seed, Cfg: map[string]int64{}}
	r := simkit.NewRand(seed, 1)
	switch scenario {
	case "model", "model-untracked", "model-outcomes", "model-outcomes-enum", "model-halt", "model-exec", "lifecycle", "disk", "disk-untracked", "disk-halt", "disk-escape", "disk-lifecycle", "disk-edits", "disk-remote", "disk-fulldev", "disk-exec", "disk-crash", "model-crash", "disk-docker":
		genModel(p, r, tier)
	case "links-scan", "links-mixed":
		genLinks(p, r, tier)
	default:
		genComponent(p, r, tier)
	}
	return p
}

func (Engine) Execute(t *testing.T, plan *simkit.Plan) *simkit.Result {
	switch plan.Scenario {
	case "model-outcomes-enum":
		return execOutcomeEnumeration(t, plan)
	case "model", "model-untracked", "model-outcomes", "model-halt", "model-exec", "lifecycle", "disk", "disk-untracked", "disk-halt", "disk-escape", "disk-lifecycle", "disk-edits", "disk-remote", "disk-fulldev", "disk-exec", "disk-crash", "model-crash", "disk-docker", "links-scan", "links-mixed":
		return execSession(t, plan)
	}
	if r := execComponent(t, plan); r != nil {
		return r
	}
	return &simkit.Result{Seed: plan.Seed, Trouble: fmt.Sprintf("unknown scenario %q", plan.Scenario)}
}
