#!/usr/bin/env python3
"""Apply a one-off textual mutation to /repo, run a check, undo. For sensitivity experiments only.
usage: trymut.py <property> <file-relative-to-/repo> <old> <new> [budget]"""
import subprocess, sys, os
prop, rel, old, new = sys.argv[1:5]
budget = sys.argv[5] if len(sys.argv) > 5 else "6"
path = os.path.join("/repo", rel)
src = open(path).read()
if src.count(old) != 1:
    print("pattern occurs", src.count(old), "times"); sys.exit(3)
open(path, "w").write(src.replace(old, new))
try:
    r = subprocess.run(["/verif/bin/check", prop, "--budget", budget], capture_output=True, text=True, cwd="/verif")
    out = r.stdout.splitlines()
    for l in out[:8]: print(l[:300])
    print("...", out[-1][:300] if out else "")
    print("exit", r.returncode)
finally:
    subprocess.run(["git", "-C", "/repo", "checkout", "--", rel])
