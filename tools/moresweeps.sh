#!/bin/sh
# usage: moresweeps.sh <seed>...   (meant for `vp run --with-repo -- tools/moresweeps.sh 4 5 6`)
for seed in "$@"; do echo "##### quick sweep seed $seed"; tools/sweep.sh quick 0 $seed; done
