package simkit

import (
	"crypto/sha256"
	"encoding/hex"
	"fmt"
	"os"
	"regexp"
	"runtime"
	"sort"
	"strconv"
	"strings"
	"sync"
	"sync/atomic"
	"testing"
	"testing/synctest"
	"time"
)

// Gate is a parked goroutine waiting for the scheduler.
type Gate struct {
	Label   string
	Key     string
	seq     int
	release chan struct{}
	dead    bool
}

// Stop is the reason Loop returned.
type Stop int

const (
	StopCond Stop = iota
	StopBudget
	StopHorizon
)

func (s Stop) String() string { return [...]string{"cond", "budget", "horizon"}[s] }

// Options configure a run.
type Options struct {
	MaxSteps    int           // scheduler step budget (default 4000)
	Horizon     time.Duration // simulated-time budget (default 10 min)
	RealTimeout time.Duration // real-time watchdog for this run (default 60 s)
	JournalCap  int           // journal lines kept (default 4000; the hash covers all)
}

// Sim is the per-run simulator state. It must be created and used inside the
// synctest bubble (Run does that).
type Sim struct {
	T    *testing.T
	Plan *Plan

	mu         sync.Mutex
	parked     []*Gate
	wake       chan struct{}
	arrivalSeq int
	pass       atomic.Bool
	faultsOff  atomic.Bool
	deadLabels map[string]bool
	expectLeak bool
	faultsHeld atomic.Bool
	crashed    atomic.Bool   // the whole simulated process has crashed: nothing of it may run on
	never      chan struct{} // never closed; created inside the current bubble
	elapsed    time.Duration // simulated time consumed by earlier phases (bubbles)

	step     int
	maxSteps int
	keyed    map[string]uint64
	horizon  time.Duration
	start    time.Time
	sticky   int
	last     string
	stalled  time.Duration // simulated time spent in stalls so far
	stall    int           // permille of scheduler steps at which every parked gate stays parked while time passes
	stalls   int

	schedPos int
	schedRng *Rand

	jhash        [32]byte
	jcount       int
	journal      []string
	jcap         int
	stepLog      []string
	schedPending []string
	counters     map[string]int64
	occur        map[string]int
	viol         []Violation
	gids         sync.Map
	actors       atomic.Int64

	plain      bool
	simElapsed time.Duration

	// Invariant, if set, is evaluated at every quiescent point.
	Invariant func()
	// Eligible, if set, filters gates that may be released now.
	Eligible func(g *Gate) bool
}

// Now returns simulated time elapsed since the start of the run.
func (s *Sim) Now() time.Duration { return s.elapsed + time.Since(s.start) }

// Unstalled is Now minus the simulated time spent in stalls: a clock for
// liveness bounds that are only meaningful while nothing is held up by the
// simulator itself.
func (s *Sim) Unstalled() time.Duration { return s.Now() - s.stalled }

// Step returns the number of scheduler steps taken.
func (s *Sim) Step() int { return s.step }

// Count adds delta to a named counter (fault fired counts, probes, ...).
func (s *Sim) Count(name string, delta int64) {
	s.mu.Lock()
	s.counters[name] += delta
	s.mu.Unlock()
}

// Counter reads a named counter.
func (s *Sim) Counter(name string) int64 {
	s.mu.Lock()
	defer s.mu.Unlock()
	return s.counters[name]
}

// Occur increments and returns the occurrence number (1-based) of key.
func (s *Sim) Occur(key string) int {
	s.mu.Lock()
	defer s.mu.Unlock()
	s.occur[key]++
	return s.occur[key]
}

// OccurCount returns the current occurrence count of key without changing it.
func (s *Sim) OccurCount(key string) int {
	s.mu.Lock()
	defer s.mu.Unlock()
	return s.occur[key]
}

// MatchFault reports the fault rule of the given kind whose key matches and
// whose Nth equals the occurrence number n, if any, and counts it as fired.
func (s *Sim) MatchFault(kind, key string, n int) *Fault {
	if s.faultsOff.Load() || s.faultsHeld.Load() {
		return nil
	}
	for i := range s.Plan.Faults {
		f := &s.Plan.Faults[i]
		if f.Kind == kind && f.Key == key && f.Nth == n {
			s.Count("fault."+kind, 1)
			s.Logf("fault", "%s fired at %s#%d arg=%d", kind, key, n, f.Arg)
			return f
		}
	}
	return nil
}

// StopFaults ends fault injection for the rest of the run (the "once faults
// stop" part of a liveness or convergence oracle): MatchFault no longer fires.
func (s *Sim) StopFaults() { s.faultsOff.Store(true) }

// FaultsStopped reports whether StopFaults was called (or faults are suspended).
func (s *Sim) FaultsStopped() bool { return s.faultsOff.Load() || s.faultsHeld.Load() }

// HoldFaults suspends (true) or resumes (false) fault injection, for stretches
// where the scheduler goroutine itself calls into the system under test.
func (s *Sim) HoldFaults(v bool) { s.faultsHeld.Store(v) }

// FaultsOfKind lists the plan's fault rules of one kind.
func (s *Sim) FaultsOfKind(kind string) []Fault {
	var out []Fault
	for _, f := range s.Plan.Faults {
		if f.Kind == kind {
			out = append(out, f)
		}
	}
	return out
}

// Logf records an event in the journal. Events logged between two quiescent
// points are sorted before being appended (canonical journal), because the Go
// runtime decides the order of goroutines woken by one step.
// scratchNames matches what differs between two executions of one seed in the
// text of error messages: the scratch directory of the worker process and the
// random suffixes of temporary files.
var scratchNames = regexp.MustCompile(`/dev/shm/verif-[A-Za-z0-9]+-[A-Za-z0-9-]*[0-9]{6,}(/data-[0-9]+)?|[0-9]{6,}`)

// sessionNames matches session identifiers (drawn from crypto/rand by mutagen).
var sessionNames = regexp.MustCompile(`sync_[0-9A-Za-z]{20,}`)

func (s *Sim) Logf(label, format string, args ...any) {
	line := label + ": " + fmt.Sprintf(format, args...)
	if strings.Contains(line, "/dev/shm/verif-") {
		line = scratchNames.ReplaceAllString(line, "*")
	}
	if strings.Contains(line, "sync_") {
		line = sessionNames.ReplaceAllString(line, "sync_*")
	}
	s.mu.Lock()
	if s.plain {
		s.appendJournal(line)
	} else {
		s.stepLog = append(s.stepLog, line)
	}
	s.mu.Unlock()
	if !s.plain {
		// Wake the scheduler if it is waiting for activity.
		select {
		case s.wake <- struct{}{}:
		default:
		}
	}
}

func (s *Sim) flushStepLog() {
	s.mu.Lock()
	lines := s.stepLog
	s.stepLog = nil
	s.mu.Unlock()
	if len(lines) == 0 {
		return
	}
	sort.Strings(lines)
	for _, l := range lines {
		s.appendJournal(l)
	}
}

// hashLine folds one line into the canonical journal hash.
func (s *Sim) hashLine(line string) {
	h := sha256.New()
	h.Write(s.jhash[:])
	h.Write([]byte(line))
	copy(s.jhash[:], h.Sum(nil))
}

// flushSched folds the scheduler releases since the last coarse event into
// the canonical hash as a sorted multiset: between two coarse events the
// order of sibling operations of one activity (iteration over Go maps) is
// chosen by the runtime and is not part of the canonical journal.
func (s *Sim) flushSched() {
	if len(s.schedPending) == 0 {
		return
	}
	sort.Strings(s.schedPending)
	for _, l := range s.schedPending {
		s.hashLine(l)
	}
	s.schedPending = s.schedPending[:0]
}

func (s *Sim) appendJournal(line string) {
	if strings.HasPrefix(line, "sched: step ") {
		if i := strings.Index(line, " -> "); i >= 0 {
			s.schedPending = append(s.schedPending, line[i:])
		}
	} else {
		s.flushSched()
		s.hashLine(line)
	}
	s.jcount++
	now := time.Duration(0)
	if !s.plain {
		now = s.Now()
	}
	entry := fmt.Sprintf("%06d t=%-12v %s", s.jcount, now, line)
	if len(s.journal) >= s.jcap {
		copy(s.journal, s.journal[1:])
		s.journal[len(s.journal)-1] = entry
	} else {
		s.journal = append(s.journal, entry)
	}
	if verbose {
		fmt.Fprintln(os.Stderr, entry)
	}
}

var verbose = os.Getenv("VERIF_VERBOSE") != ""

// Violate records an oracle failure.
func (s *Sim) Violate(property, rule, class, format string, args ...any) {
	detail := fmt.Sprintf(format, args...)
	s.mu.Lock()
	for _, v := range s.viol {
		if v.Property == property && v.Rule == rule && v.Class == class {
			s.mu.Unlock()
			return
		}
	}
	s.viol = append(s.viol, Violation{property, rule, class, detail})
	s.mu.Unlock()
	s.Logf("oracle", "VIOLATION %s rule=%s class=%s: %s", property, rule, class, detail)
}

// Violated reports whether any violation has been recorded.
func (s *Sim) Violated() bool {
	s.mu.Lock()
	defer s.mu.Unlock()
	return len(s.viol) > 0
}

// curGID returns the current goroutine id.
func curGID() int64 {
	var buf [64]byte
	n := runtime.Stack(buf[:], false)
	// "goroutine 123 [running]:"
	f := strings.Fields(string(buf[:n]))
	if len(f) < 2 {
		return -1
	}
	id, _ := strconv.ParseInt(f[1], 10, 64)
	return id
}

// Go starts a simulated actor. The actor should call Gate before every
// environment-visible action.
func (s *Sim) Go(label string, fn func()) {
	s.actors.Add(1)
	wake := s.wake
	go func() {
		defer func() {
			s.actors.Add(-1)
			select {
			case wake <- struct{}{}:
			default:
			}
		}()
		id := curGID()
		s.gids.Store(id, label)
		defer s.gids.Delete(id)
		fn()
	}()
}

// ActorsRunning is the number of actors whose function has not returned.
func (s *Sim) ActorsRunning() int { return int(s.actors.Load()) }

// ActorLabel returns the label of the calling goroutine if it is an actor.
func (s *Sim) ActorLabel() string {
	if v, ok := s.gids.Load(curGID()); ok {
		return v.(string)
	}
	return ""
}

// StackLabel maps a substring of a function name to a label.
type StackLabel struct{ Substr, Label string }

// LabelFromStack walks the caller's stack from the innermost frame outwards and
// returns the label of the first frame matching the table ("" if none).
func LabelFromStack(table []StackLabel) string {
	var pcs [48]uintptr
	n := runtime.Callers(2, pcs[:])
	frames := runtime.CallersFrames(pcs[:n])
	for {
		fr, more := frames.Next()
		for _, e := range table {
			if strings.Contains(fr.Function, e.Substr) {
				return e.Label
			}
		}
		if !more {
			return ""
		}
	}
}

// Gate parks the calling goroutine until the scheduler releases it. With an
// empty label the actor label of the calling goroutine is used.
func (s *Sim) Gate(label, key string) {
	if s.crashed.Load() {
		s.ParkForever()
	}
	if s.pass.Load() {
		return
	}
	if label == "" {
		label = s.ActorLabel()
		if label == "" {
			label = "anon"
		}
	}
	g := &Gate{Label: label, Key: key, release: make(chan struct{})}
	s.mu.Lock()
	if s.deadLabels[label] {
		g.dead = true
	}
	g.seq = s.arrivalSeq
	s.arrivalSeq++
	s.parked = append(s.parked, g)
	s.mu.Unlock()
	select {
	case s.wake <- struct{}{}:
	default:
	}
	<-g.release
}

// Crash freezes the whole simulated process from now on: every goroutine that
// reaches a gate or a hook that consults Crashed parks forever, nothing parked
// is ever released. The phase function must return right afterwards; RunPhases
// then lets the bubble run down (timers fire, goroutines run into their next
// gate and stay there) and starts the next phase in a fresh bubble. Only what
// is on disk - and whatever else the engine treats as durable - survives.
func (s *Sim) Crash() {
	s.crashed.Store(true)
	s.mu.Lock()
	s.expectLeak = true
	s.mu.Unlock()
	s.Count("fault.crash", 1)
	s.appendJournal(fmt.Sprintf("sched: CRASH at step %d", s.step))
}

// Crashed reports whether Crash was called in this phase.
func (s *Sim) Crashed() bool { return s.crashed.Load() }

// ParkForever blocks the calling goroutine for good (durably, in synctest terms).
func (s *Sim) ParkForever() {
	<-s.never
}

// Kill marks a label as crashed: its parked and future gates are never
// released (the goroutine stays frozen forever, which models a process crash).
func (s *Sim) Kill(label string) {
	s.mu.Lock()
	s.deadLabels[label] = true
	s.expectLeak = true
	for _, g := range s.parked {
		if g.Label == label {
			g.dead = true
		}
	}
	s.mu.Unlock()
	s.Logf("sim", "kill %s", label)
}

// ExpectLeak tells Run that goroutines may legitimately remain blocked at the
// end of the bubble (crash scenarios).
func (s *Sim) ExpectLeak() { s.mu.Lock(); s.expectLeak = true; s.mu.Unlock() }

// Choose consumes one entry of the schedule vector and maps it to [0,n).
func (s *Sim) Choose(n int) int {
	if n <= 1 {
		return 0
	}
	return int(s.draw()) % n
}

// ChooseKeyed is Choose for callers that do not run under a gate (a reader
// deciding how short its next read is): several of them can be active inside
// one scheduler step, and the order in which they would take values from the
// shared schedule vector is the runtime's, not the simulator's. Their choices
// come from a sequence of their own instead: a pure function of the run seed,
// the key and the number of earlier choices under that key.
func (s *Sim) ChooseKeyed(key string, n int) int {
	if n <= 1 {
		return 0
	}
	s.mu.Lock()
	if s.keyed == nil {
		s.keyed = map[string]uint64{}
	}
	k := s.keyed[key]
	s.keyed[key] = k + 1
	s.mu.Unlock()
	h := s.Plan.Seed*0x9e3779b97f4a7c15 + k*0xbf58476d1ce4e5b9 + 0x94d049bb133111eb
	for i := 0; i < len(key); i++ {
		h = (h ^ uint64(key[i])) * 0x100000001b3
	}
	h ^= h >> 31
	h *= 0xd6e8feb86659fd93
	h ^= h >> 29
	return int(h % uint64(n))
}

func (s *Sim) draw() uint16 {
	s.mu.Lock()
	defer s.mu.Unlock()
	var v uint16
	if s.schedPos < len(s.Plan.Sched) {
		v = s.Plan.Sched[s.schedPos]
	} else if s.Plan.SchedClosed {
		v = 0
	} else {
		v = uint16(s.schedRng.Intn(1 << 16))
		s.Plan.Sched = append(s.Plan.Sched, v)
	}
	s.schedPos++
	return v
}

// ready returns the releasable gates sorted by (label, key, arrival).
func (s *Sim) ready() []*Gate {
	s.mu.Lock()
	out := make([]*Gate, 0, len(s.parked))
	for _, g := range s.parked {
		if g.dead {
			continue
		}
		if s.Eligible != nil && !s.Eligible(g) {
			continue
		}
		out = append(out, g)
	}
	s.mu.Unlock()
	sort.Slice(out, func(i, j int) bool {
		if out[i].Label != out[j].Label {
			return out[i].Label < out[j].Label
		}
		if out[i].Key != out[j].Key {
			return out[i].Key < out[j].Key
		}
		return out[i].seq < out[j].seq
	})
	return out
}

// Parked returns the labels and keys of currently parked gates (sorted).
func (s *Sim) Parked() []string {
	var out []string
	for _, g := range s.ready() {
		out = append(out, g.Label+" "+g.Key)
	}
	return out
}

func (s *Sim) releaseGate(g *Gate) {
	s.mu.Lock()
	for i, p := range s.parked {
		if p == g {
			s.parked = append(s.parked[:i], s.parked[i+1:]...)
			break
		}
	}
	s.mu.Unlock()
	close(g.release)
}

// Wake makes the scheduler re-evaluate its invariants and conditions at the
// next quiescent point (used by ticker actors).
func (s *Sim) Wake() {
	select {
	case s.wake <- struct{}{}:
	default:
	}
}

// Quiesce waits until every other goroutine in the bubble is durably blocked
// and flushes the step log.
func (s *Sim) Quiesce() {
	synctest.Wait()
	s.flushStepLog()
}

// Loop runs the scheduler until cond() holds at a quiescent point, the step
// budget is exhausted or the simulated-time horizon is reached.
func (s *Sim) Loop(cond func() bool) Stop {
	for {
		s.Quiesce()
		if s.Invariant != nil {
			s.Invariant()
			s.flushStepLog()
		}
		if cond != nil && cond() {
			return StopCond
		}
		if s.step >= s.maxSteps {
			return StopBudget
		}
		remaining := s.horizon - s.Now()
		if remaining <= 0 {
			return StopHorizon
		}
		ready := s.ready()
		if len(ready) == 0 {
			// Nothing to release: let simulated time advance to the next
			// timer (or until something arrives at a gate).
			timer := time.NewTimer(remaining)
			select {
			case <-s.wake:
				timer.Stop()
			case <-timer.C:
			}
			continue
		}
		// A stall: everything that is parked stays parked (a slow disk, a slow
		// peer, a descheduled process) while simulated time passes, so timers
		// fire and other activities overtake. Off once faults are stopped.
		if s.stall > 0 && !s.faultsOff.Load() && s.stalls < maxStallsPerRun {
			if w := s.draw(); w != 0 && int(w%1000) < s.stall {
				d := stallDurations[int(w/1000)%len(stallDurations)]
				if d > remaining {
					d = remaining
				}
				s.stalls++
				s.stalled += d
				s.Count("fault.stall", 1)
				s.appendJournal(fmt.Sprintf("sched: stall %v with %d gate(s) parked", d, len(ready)))
				time.Sleep(d)
				continue
			}
		}
		// Choose among labels (stable across sibling-order differences).
		labels := make([]string, 0, 8)
		first := map[string]*Gate{}
		for _, g := range ready {
			if _, ok := first[g.Label]; !ok {
				first[g.Label] = g
				labels = append(labels, g.Label)
			}
		}
		var pick string
		if len(labels) == 1 {
			pick = labels[0]
		} else {
			v := s.draw()
			if _, ok := first[s.last]; ok && s.sticky > 0 && int(v%100) < s.sticky && v != 0 {
				pick = s.last
			} else {
				pick = labels[int(v/100)%len(labels)]
			}
		}
		g := first[pick]
		s.last = pick
		s.step++
		if debugReady {
			s.appendJournal(fmt.Sprintf("ready: %v", labels))
		}
		s.appendJournal(fmt.Sprintf("sched: step %d -> %s | %s", s.step, g.Label, g.Key))
		s.releaseGate(g)
	}
}

var debugReady = os.Getenv("VERIF_JOURNAL_READY") != "" // (debugging aid only: changes the journal)

const maxStallsPerRun = 60

// Odd microsecond offsets keep stalls from ending exactly on a timer of the system.
var stallDurations = []time.Duration{time.Millisecond + 37*time.Microsecond, 40*time.Millisecond + 37*time.Microsecond,
	400*time.Millisecond + 37*time.Microsecond, 1100*time.Millisecond + 37*time.Microsecond, 3*time.Second + 37*time.Microsecond}

// Sleep advances simulated time by d on behalf of the scheduler goroutine
// (everything else keeps running: timers fire, goroutines arrive at gates).
func (s *Sim) Sleep(d time.Duration) { time.Sleep(d) }

// SetBudget adjusts step and time budgets mid-run (settling phases).
func (s *Sim) SetBudget(extraSteps int, extraTime time.Duration) {
	s.maxSteps = s.step + extraSteps
	s.horizon = s.Now() + extraTime
}

// Finish switches all gates to pass-through and releases every live parked
// goroutine so that the system can shut down.
func (s *Sim) Finish() {
	s.pass.Store(true)
	for {
		s.mu.Lock()
		var live []*Gate
		var dead []*Gate
		for _, g := range s.parked {
			if g.dead {
				dead = append(dead, g)
			} else {
				live = append(live, g)
			}
		}
		s.parked = dead
		s.mu.Unlock()
		if len(live) == 0 {
			break
		}
		for _, g := range live {
			close(g.release)
		}
		synctest.Wait()
	}
	s.flushStepLog()
}

// WaitActors lets simulated time pass (after Finish) until every actor
// function has returned, so that no goroutine is left sleeping when the bubble
// ends. It gives up after limit of simulated time.
func (s *Sim) WaitActors(limit time.Duration) {
	deadline := time.Now().Add(limit)
	for s.ActorsRunning() > 0 && time.Now().Before(deadline) {
		time.Sleep(time.Millisecond)
		synctest.Wait()
	}
}

// PassThrough reports whether gates are disabled.
func (s *Sim) PassThrough() bool { return s.pass.Load() }

// SetPassThrough enables or disables gate parking (already parked goroutines
// stay parked until released by Loop or Finish).
func (s *Sim) SetPassThrough(v bool) { s.pass.Store(v) }

// DeadlockSite inspects two full goroutine dumps of a wedged process. It
// returns the innermost mutagen function of a goroutine that waits for a mutex
// when (a) no goroutine other than the dumping one is running or runnable in
// either dump and (b) the same goroutine waits in both; otherwise "".
func DeadlockSite(first, second string) string {
	type g struct{ id, state, site string }
	parse := func(dump string) (gs []g, busy bool) {
		for i, block := range strings.Split(dump, "\n\n") {
			head, rest, _ := strings.Cut(block, "\n")
			if !strings.HasPrefix(head, "goroutine ") {
				continue
			}
			open, close := strings.IndexByte(head, '['), strings.LastIndexByte(head, ']')
			if open < 0 || close < open {
				continue
			}
			state := head[open+1 : close]
			if i > 0 && (strings.HasPrefix(state, "running") || strings.HasPrefix(state, "runnable")) {
				busy = true
			}
			site := ""
			for _, line := range strings.Split(rest, "\n") {
				if strings.HasPrefix(line, "github.com/mutagen-io/mutagen/pkg/") {
					site = line
					if k := strings.LastIndexByte(site, '('); k > 0 {
						site = site[:k]
					}
					site = strings.TrimPrefix(site, "github.com/mutagen-io/mutagen/pkg/")
					break
				}
			}
			gs = append(gs, g{strings.Fields(head)[1], state, site})
		}
		return
	}
	a, busyA := parse(first)
	b, busyB := parse(second)
	if busyA || busyB {
		return ""
	}
	waiting := map[string]string{}
	for _, x := range a {
		if strings.Contains(x.state, "Mutex") && x.site != "" {
			waiting[x.id] = x.site
		}
	}
	best := ""
	for _, x := range b {
		if strings.Contains(x.state, "Mutex") && x.site != "" && waiting[x.id] == x.site {
			if best == "" || x.site < best {
				best = x.site
			}
		}
	}
	return best
}

// Run executes body inside a fresh synctest bubble and collects the result.
func Run(t *testing.T, plan *Plan, opt Options, body func(s *Sim)) *Result {
	return RunPhases(t, plan, opt, func(s *Sim, phase int) bool {
		body(s)
		return false
	})
}

// RunPhases executes one run as a sequence of phases, each in its own synctest
// bubble, over one Sim (journal, counters, schedule vector and plan carry over).
// A phase function returns true to ask for another phase; it does so after
// calling Crash, which models the crash of the whole simulated process: the
// goroutines of that phase stay frozen in their (abandoned) bubble for good and
// the next phase starts from durable state only, with a fresh fake clock.
func RunPhases(t *testing.T, plan *Plan, opt Options, body func(s *Sim, phase int) bool) *Result {
	if opt.MaxSteps == 0 {
		opt.MaxSteps = 4000
	}
	if opt.Horizon == 0 {
		opt.Horizon = 10 * time.Minute
	}
	if opt.RealTimeout == 0 {
		opt.RealTimeout = 60 * time.Second
	}
	if opt.JournalCap == 0 {
		opt.JournalCap = 4000
	}
	if v, err := strconv.Atoi(os.Getenv("VERIF_JOURNAL_CAP")); err == nil && v > 0 {
		opt.JournalCap = v // (debugging aid)
	}
	res := &Result{Seed: plan.Seed}
	var s *Sim
	setRuntimeSeed(plan.Seed | 1)
	defer setRuntimeSeed(0)
	watchdog := time.AfterFunc(opt.RealTimeout, func() {
		buf := make([]byte, 1<<20)
		n := runtime.Stack(buf, true)
		first := string(buf[:n])
		// Tell a deadlock inside the code under test from a slow or stuck
		// harness: nothing is running in two dumps taken apart, and a
		// goroutine waits for a mutex from inside mutagen code (such a wait is
		// not a durable block, so the bubble can never become idle again).
		time.Sleep(1500 * time.Millisecond)
		n = runtime.Stack(buf, true)
		if site := DeadlockSite(first, string(buf[:n])); site != "" {
			fmt.Fprintf(os.Stderr, "DEADLOCK: site=%s run seed=%d scenario=%s: nothing runs and a goroutine waits for a mutex inside the code under test\n%s\n", site, plan.Seed, plan.Scenario, buf[:n])
			os.Exit(4)
		}
		fmt.Fprintf(os.Stderr, "WATCHDOG: run seed=%d scenario=%s wedged for %v (real time)\n%s\n", plan.Seed, plan.Scenario, opt.RealTimeout, buf[:n])
		os.Exit(3)
	})
	defer watchdog.Stop()
	for phase, again := 0, true; again && res.Trouble == ""; phase++ {
		again = false
		func() {
			defer func() {
				if r := recover(); r != nil {
					msg := fmt.Sprint(r)
					if s != nil && s.expectLeak && strings.Contains(msg, "deadlock: main bubble goroutine has exited") {
						return
					}
					buf := make([]byte, 1<<20)
					n := runtime.Stack(buf, strings.Contains(msg, "deadlock"))
					res.Trouble = "panic: " + msg + "\n" + string(buf[:n])
					again = false
				}
			}()
			synctest.Test(t, func(t *testing.T) {
				if s == nil {
					s = &Sim{
						T: t, Plan: plan,
						deadLabels: map[string]bool{},
						maxSteps:   opt.MaxSteps,
						horizon:    opt.Horizon,
						sticky:     int(plan.C("sched_sticky")),
						stall:      int(plan.C("sched_stall")),
						schedRng:   NewRand(plan.Seed, 0x5c4ed),
						jcap:       opt.JournalCap,
						counters:   map[string]int64{},
						occur:      map[string]int{},
					}
				} else {
					// A new incarnation: everything of the previous bubble is
					// abandoned (its parked goroutines stay where they are).
					s.mu.Lock()
					s.T = t
					s.parked = nil
					s.deadLabels = map[string]bool{}
					s.mu.Unlock()
					s.elapsed += s.simElapsed
					s.actors.Store(0)
					s.crashed.Store(false)
					s.pass.Store(false)
					s.last = ""
				}
				// Everything the scheduler selects on is created inside the bubble.
				s.wake = make(chan struct{}, 1)
				s.never = make(chan struct{})
				s.start = time.Now()
				again = body(s, phase)
				s.simElapsed = time.Since(s.start)
				if !s.crashed.Load() {
					s.Finish()
					s.simElapsed = time.Since(s.start)
				}
			})
		}()
	}
	if s != nil {
		s.mu.Lock()
		res.Violations = append(res.Violations, s.viol...)
		res.Counters = s.counters
		s.mu.Unlock()
		res.Steps = s.step
		res.SimNanos = int64(s.elapsed + s.simElapsed)
		s.flushSched()
		res.JournalTail = s.journal
		res.JournalHash = hex.EncodeToString(s.jhash[:8])
	}
	return res
}

// RunPlain executes body without a bubble (for engines that do not need fake
// time or a scheduler); it still provides counters, journal and violations.
func RunPlain(plan *Plan, body func(s *Sim)) (res *Result) {
	res = &Result{Seed: plan.Seed}
	s := &Sim{
		Plan: plan, wake: make(chan struct{}, 1), deadLabels: map[string]bool{},
		maxSteps: 1 << 30, horizon: time.Hour, start: time.Now(),
		schedRng: NewRand(plan.Seed, 0x5c4ed), jcap: 4000,
		counters: map[string]int64{}, occur: map[string]int{}, plain: true,
	}
	s.pass.Store(true)
	defer func() {
		if r := recover(); r != nil {
			buf := make([]byte, 1<<16)
			n := runtime.Stack(buf, false)
			res.Trouble = "panic: " + fmt.Sprint(r) + "\n" + string(buf[:n])
		}
		s.flushStepLogPlain()
		res.Violations = append(res.Violations, s.viol...)
		res.Counters = s.counters
		res.JournalTail = s.journal
		res.JournalHash = hex.EncodeToString(s.jhash[:8])
	}()
	body(s)
	return res
}

func (s *Sim) flushStepLogPlain() {
	lines := s.stepLog
	s.stepLog = nil
	for _, l := range lines {
		s.appendJournal(l)
	}
}

// Digest hashes strings into a short hex fingerprint.
func Digest(parts ...string) string {
	h := sha256.New()
	for _, p := range parts {
		h.Write([]byte(p))
		h.Write([]byte{0})
	}
	return hex.EncodeToString(h.Sum(nil)[:8])
}
