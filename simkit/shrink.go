package simkit

// Shrink minimises a failing plan: it closes and shortens the schedule vector,
// drops operations (ddmin style) and fault rules, while fails(plan) keeps
// returning true. maxExec bounds the number of executions.
func Shrink(plan *Plan, maxExec int, fails func(*Plan) bool) (*Plan, int) {
	best := plan.Clone()
	best.SchedClosed = true
	execs := 0
	try := func(c *Plan) bool {
		if execs >= maxExec {
			return false
		}
		execs++
		// Execution may append to Sched when not closed; candidates are closed.
		c.SchedClosed = true
		probe := c.Clone()
		if fails(probe) {
			best = c
			return true
		}
		return false
	}
	// The closed original must fail, otherwise shrinking is meaningless.
	if !try(best.Clone()) {
		return plan, execs
	}
	progress := true
	for progress && execs < maxExec {
		progress = false
		// 1. Schedule vector: empty, then shorter prefixes.
		if len(best.Sched) > 0 {
			c := best.Clone()
			c.Sched = nil
			if try(c) {
				progress = true
			} else {
				lo, hi := 0, len(best.Sched) // invariant: prefix hi fails
				for lo+1 < hi && execs < maxExec {
					mid := (lo + hi) / 2
					c := best.Clone()
					c.Sched = c.Sched[:mid]
					if try(c) {
						hi = mid
						progress = true
					} else {
						lo = mid
					}
				}
			}
		}
		// 2. Operations: remove chunks.
		for size := (len(best.Ops) + 1) / 2; size >= 1 && execs < maxExec; size /= 2 {
			for i := 0; i+size <= len(best.Ops) && execs < maxExec; {
				c := best.Clone()
				c.Ops = append(c.Ops[:i:i], c.Ops[i+size:]...)
				if try(c) {
					progress = true
				} else {
					i += size
				}
			}
			if size == 1 {
				break
			}
		}
		// 3. Fault rules.
		for i := 0; i < len(best.Faults) && execs < maxExec; {
			c := best.Clone()
			c.Faults = append(c.Faults[:i:i], c.Faults[i+1:]...)
			if try(c) {
				progress = true
			} else {
				i++
			}
		}
		// 4. Zero individual schedule entries.
		for i := 0; i < len(best.Sched) && i < 256 && execs < maxExec; i++ {
			if best.Sched[i] == 0 {
				continue
			}
			c := best.Clone()
			c.Sched[i] = 0
			if try(c) {
				progress = true
			}
		}
	}
	return best, execs
}
