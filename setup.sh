#!/bin/sh
# Builds the orchestrator from files on disk only (offline).
set -e
cd "$(dirname "$0")"
export GOFLAGS=-mod=mod GOPROXY=off GOSUMDB=off GOTOOLCHAIN=local CGO_ENABLED=0
mkdir -p bin evidence replays .build
go1.26.8 build -o bin/check ./cmd/check
cat > bin/run-check <<'EOS'
#!/bin/sh
# Rebuilds the orchestrator (cheap when cached) and runs one check.
cd "$(dirname "$0")/.."
export GOFLAGS=-mod=mod GOPROXY=off GOSUMDB=off GOTOOLCHAIN=local CGO_ENABLED=0
go1.26.8 build -o bin/check ./cmd/check || { echo "TROUBLE: cannot build cmd/check"; exit 2; }
exec ./bin/check "$@"
EOS
chmod +x bin/run-check
echo setup done
