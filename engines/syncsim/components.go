package syncsim

import (
	"context"
	"fmt"
	"os"
	"path/filepath"
	"sort"
	"strings"
	"testing"
	"time"
	"unicode/utf8"

	"golang.org/x/sys/unix"

	"github.com/mutagen-io/mutagen/pkg/filesystem"
	"github.com/mutagen-io/mutagen/pkg/logging"
	"github.com/mutagen-io/mutagen/pkg/synchronization"
	"github.com/mutagen-io/mutagen/pkg/synchronization/core"
	"github.com/mutagen-io/mutagen/pkg/synchronization/endpoint/local"

	"verif/simkit"
)

// Component scenarios drive one or two real local endpoints directly (the
// harness plays the controller), inside a bubble, with the syscall hook used
// for counting, errno injection and cancellation at exact operation indices.

func componentScenarios(property string) []string {
	switch property {
	case "C09":
		return []string{"transition-faults"}
	case "C12":
		return []string{"scan"}
	}
	return moreComponentScenarios(property)
}

func genComponent(p *simkit.Plan, r *simkit.Rand, tier string) {
	switch p.Scenario {
	case "transition-faults":
		genTransitionFaults(p, r, tier)
	case "scan":
		genScan(p, r, tier)
	default:
		genMoreComponents(p, r, tier)
	}
}

func execComponent(t *testing.T, plan *simkit.Plan) *simkit.Result {
	switch plan.Scenario {
	case "transition-faults":
		return execTransitionFaults(t, plan)
	case "scan":
		return execScan(t, plan)
	}
	return execMoreComponents(t, plan)
}

// comp is the shared setup of component scenarios.
type comp struct {
	h       *harness
	d       *diskState
	s       *simkit.Sim
	logger  *logging.Logger
	dataDir string
	// per-iteration syscall bookkeeping (activity-filtered)
	count    map[string]int
	failAt   map[string]map[int]error // activity -> index -> errno
	cancelAt map[string]int
	cancel   context.CancelFunc
	faulted  []string // root-relative paths that received an injected fault
	opsSeen  []string
	// hookExtra, if set, is called for every counted operation.
	hookExtra func(activity, op string, n int)
}

func newComp(s *simkit.Sim, plan *simkit.Plan) *comp {
	dataDir := os.Getenv("MUTAGEN_DATA_DIRECTORY")
	if dataDir == "" {
		d, _ := simkit.MkdirTemp("/dev/shm", "verif-syncsim-data-")
		dataDir = d
		os.Setenv("MUTAGEN_DATA_DIRECTORY", d)
	}
	cleanDataDir(dataDir)
	h := &harness{s: s, plan: plan, dataDir: dataDir, ideal: true, userSeq: map[string]int64{}, modelSide: map[string]bool{}}
	if err := h.setupDisk(); err != nil {
		panic(err)
	}
	c := &comp{h: h, d: h.disk, s: s, dataDir: dataDir}
	c.logger = logging.NewLogger(logging.LevelDebug, &logSink{h: h})
	c.reset()
	filesystem.VerifSyscallHook = c.hook
	return c
}

func (c *comp) close() {
	c.h.teardownDisk()
}

func (c *comp) reset() {
	c.count = map[string]int{}
	c.failAt = map[string]map[int]error{}
	c.cancelAt = map[string]int{}
	c.cancel = nil
	c.faulted = nil
	c.opsSeen = nil
}

// hook counts operations per activity and injects the configured fault.
func (c *comp) hook(op string, dirfd int, path string, dirfd2 int, path2 string) error {
	d := c.d
	abs := joinFD(dirfd, path)
	if op == "read" || op == "fstat" || op == "fchmod" || op == "readdir" {
		abs = resolveFD(dirfd)
	}
	side, rel := d.classify(abs)
	var side2, rel2, abs2 string
	if op == "renameat" || op == "renameat2" {
		abs2 = joinFD(dirfd2, path2)
		side2, rel2 = d.classify(abs2)
	}
	for _, a := range []string{abs, abs2} {
		if a != "" && (a == d.canary || strings.HasPrefix(a, d.canary+"/")) {
			c.s.Violate("C17", "escaped-root", op, "%s on %q resolves into the canary directory", op, a)
		}
	}
	if side == "" && side2 == "" {
		return nil
	}
	activity := simkit.LabelFromStack(stackLabels)
	c.count[activity]++
	n := c.count[activity]
	if activity == "transition" || activity == "scan" {
		c.opsSeen = append(c.opsSeen, op)
	}
	if c.hookExtra != nil {
		c.hookExtra(activity, op, n)
	}
	if at, ok := c.cancelAt[activity]; ok && at == n && c.cancel != nil {
		c.cancel()
		c.s.Count("fault.cancel", 1)
	}
	if e, ok := c.failAt[activity][n]; ok {
		if e == unix.EXDEV && op != "renameat" && op != "renameat2" {
			e = unix.EIO
		}
		r := rel
		if side == "" {
			r = rel2
		}
		c.faulted = append(c.faulted, r)
		c.s.Count("fault.fs_errno."+errnoName(e), 1)
		c.s.Logf("fs", "%s op %d (%s %q) fails with %v", activity, n, op, maskTemp(r), e)
		return e
	}
	return nil
}

func errnoName(e error) string {
	switch e {
	case unix.EIO:
		return "EIO"
	case unix.EACCES:
		return "EACCES"
	case unix.ENOSPC:
		return "ENOSPC"
	case unix.ENOENT:
		return "ENOENT"
	case unix.EXDEV:
		return "EXDEV"
	case unix.ENOTEMPTY:
		return "ENOTEMPTY"
	case unix.EEXIST:
		return "EEXIST"
	case unix.EINTR:
		return "EINTR"
	}
	return "other"
}

func (c *comp) endpoint(side string, alpha bool, cfg *synchronization.Configuration) synchronization.Endpoint {
	ep, err := local.NewEndpoint(c.logger.Sublogger(side), c.d.roots[side], "sync_verifcomponentsession0000000000000000000000", synchronization.DefaultVersion, cfg, alpha)
	if err != nil {
		panic(fmt.Errorf("cannot create %s endpoint: %w", side, err))
	}
	return ep
}

// rebuild recreates both roots from the plan's init operations.
func (c *comp) rebuild(plan *simkit.Plan) {
	for _, r := range c.d.roots {
		rmAll(r)
		os.Mkdir(r, 0o755)
	}
	c.d.stamp = 1_000_000_000
	c.d.stampNanos = 0
	c.d.backNanos = 0
	for _, op := range plan.Ops {
		if op.Actor == "init" {
			c.d.userOp(op)
		}
	}
	cleanDataDir(c.dataDir)
}

// ------------------------------------------------------ C09 transition faults

func genTransitionFaults(p *simkit.Plan, r *simkit.Rand, tier string) {
	c := p.Cfg
	var id int64 = 100
	for i := r.Range(2, 10); i > 0; i-- {
		genEdit(r, p, "init", &id, r.Chance(1, 4))
	}
	c["owner"] = int64(r.Intn(2))
	c["internal_staging"] = int64(r.Intn(2))
	c["errno_seed"] = int64(r.Uint64() >> 1)
	c["max_iterations"] = 60
	if tier == "thorough" {
		c["max_iterations"] = 400
	}
}

// topLevelPlan builds the changes that make dst equal to src's synchronizable
// content, one change per differing top-level name (harness's own diff).
func topLevelPlan(src, dst *core.Entry) []*core.Change {
	var out []*core.Change
	names := map[string]bool{}
	for n := range src.GetContents() {
		names[n] = true
	}
	for n := range dst.GetContents() {
		names[n] = true
	}
	var sorted []string
	for n := range names {
		sorted = append(sorted, n)
	}
	sort.Strings(sorted)
	for _, n := range sorted {
		s := syncPart(src.GetContents()[n])
		dRaw := dst.GetContents()[n]
		if dRaw != nil && unsyncKind(dRaw.Kind) {
			continue
		}
		d := syncPart(dRaw)
		if !deepEqual(s, d) {
			out = append(out, &core.Change{Path: n, Old: d, New: s})
		}
	}
	return out
}

func execTransitionFaults(t *testing.T, plan *simkit.Plan) *simkit.Result {
	var nontrivial bool
	res := simkit.Run(t, plan, simkit.Options{MaxSteps: 1000, Horizon: time.Hour, RealTimeout: 120 * time.Second}, func(s *simkit.Sim) {
		c := newComp(s, plan)
		defer c.close()
		cfg := &synchronization.Configuration{
			SynchronizationMode: core.SynchronizationMode_SynchronizationModeTwoWaySafe,
			WatchMode:           synchronization.WatchMode_WatchModeNoWatch,
			Ignores:             []string{"*.ign"},
		}
		if plan.C("owner") == 1 {
			cfg.DefaultOwner = "id:0"
			cfg.DefaultGroup = "id:0"
		}
		if plan.C("internal_staging") == 1 {
			cfg.StageMode = synchronization.StageMode_StageModeInternal
		}
		er := simkit.NewRand(uint64(plan.C("errno_seed")), 3)
		// iteration executes the whole pipeline with one fault configuration
		// and returns the number of hooked operations the transition issued.
		iteration := func(name string, failAt int, errno error, cancelAt int, dropStaged bool, second int) (int, []string) {
			c.rebuild(plan)
			c.reset()
			src := c.endpoint("alpha", true, cfg)
			dst := c.endpoint("beta", false, cfg)
			defer src.Shutdown()
			defer dst.Shutdown()
			ctx := context.Background()
			ss, err, _ := src.Scan(ctx, nil, true)
			if err != nil {
				return 0, nil
			}
			ds, err, _ := dst.Scan(ctx, nil, true)
			if err != nil || ss.Content == nil || ds.Content == nil || ss.Content.Kind != core.EntryKind_Directory || ds.Content.Kind != core.EntryKind_Directory {
				return 0, nil
			}
			transitions := topLevelPlan(ss.Content, ds.Content)
			if len(transitions) == 0 {
				return 0, nil
			}
			paths, digests := core.TransitionDependencies(transitions)
			if len(paths) > 0 {
				filtered, sigs, receiver, err := dst.Stage(paths, digests)
				if err != nil {
					s.Logf("driver", "%s: stage failed: %v", name, err)
					return 0, nil
				}
				if len(filtered) > 0 {
					if err := src.Supply(filtered, sigs, receiver); err != nil {
						s.Logf("driver", "%s: supply failed: %v", name, err)
						return 0, nil
					}
				}
			}
			if dropStaged {
				// The staged files vanish behind the stager's back.
				filepath.Walk(filepath.Join(c.dataDir, "staging"), func(p string, info os.FileInfo, err error) error {
					if err == nil && info.Mode().IsRegular() {
						os.Remove(p)
					}
					return nil
				})
				filepath.Walk(c.d.roots["beta"], func(p string, info os.FileInfo, err error) error {
					if err == nil && info.Mode().IsRegular() && strings.Contains(p, ".mutagen-staging") {
						os.Remove(p)
					}
					return nil
				})
				s.Count("fault.staged_files_removed", 1)
			}
			c.reset()
			tctx, cancel := context.WithCancel(ctx)
			defer cancel()
			if failAt > 0 {
				c.failAt["transition"] = map[int]error{failAt: errno}
				if second > 0 {
					c.failAt["transition"][second] = unix.EIO
				}
			}
			if cancelAt > 0 {
				c.cancelAt["transition"] = cancelAt
				c.cancel = cancel
			}
			results, problems, missing, terr := dst.Transition(tctx, transitions)
			n := c.count["transition"]
			ops := append([]string(nil), c.opsSeen...)
			c.failAt, c.cancelAt = map[string]map[int]error{}, map[string]int{}
			s.Count("enum.fault_positions", 1)
			if terr != nil {
				s.Logf("driver", "%s: transition returned error %v", name, terr)
				return n, ops
			}
			if len(results) != len(transitions) {
				s.Violate("C09", "result-count", "Transition", "%s: %d transitions, %d results", name, len(transitions), len(results))
				return n, ops
			}
			tree := c.d.walkTree("beta")
			fresh, ferr, _ := dst.Scan(ctx, nil, true)
			for i, tr := range transitions {
				on := lookup(tree, tr.Path)
				if !deepEqual(syncPart(on), results[i]) {
					s.Violate("C09", "result-differs-from-disk", classOfOps(ops, failAt, cancelAt, dropStaged), "%s: transition at %q (%s -> %s) reported %s but the root holds %s", name, tr.Path, render(tr.Old), render(tr.New), render(results[i]), render(on))
				}
				if ferr == nil && fresh != nil {
					if got := syncPart(lookup(fresh.Content, tr.Path)); !deepEqual(got, results[i]) && !hasProblem(lookup(fresh.Content, tr.Path)) {
						s.Violate("C09", "scan-disagrees-with-result", classOfOps(ops, failAt, cancelAt, dropStaged), "%s: transition at %q reported %s but a scan taken right after sees %s", name, tr.Path, render(results[i]), render(lookup(fresh.Content, tr.Path)))
					}
				}
				if !deepEqual(results[i], tr.New) {
					found := false
					for _, p := range problems {
						if pathWithin(p.Path, tr.Path) || pathWithin(tr.Path, p.Path) {
							found = true
						}
					}
					if !found && !missing {
						s.Violate("C09", "failure-without-problem", classOfOps(ops, failAt, cancelAt, dropStaged), "%s: transition at %q ended as %s instead of %s but no problem was reported for it", name, tr.Path, render(results[i]), render(tr.New))
					}
					s.Count("probe.partial_results", 1)
				}
			}
			return n, ops
		}
		n0, ops0 := iteration("fault-free", 0, nil, 0, false, 0)
		if n0 == 0 {
			return
		}
		nontrivial = true
		budget := int(plan.C("max_iterations"))
		// Only errors a healthy kernel can return for an operation on content
		// that exists: ENOENT / EEXIST / ENOTEMPTY would contradict the disk.
		errs := []error{unix.EIO, unix.EACCES, unix.ENOSPC}
		for i := 1; i <= n0 && budget > 0 && !s.Violated(); i++ {
			e := errs[er.Intn(len(errs))]
			iteration(fmt.Sprintf("errno-%s-at-%d/%d(%s)", errnoName(e), i, n0, ops0[i-1]), i, e, 0, false, 0)
			budget--
			if ops0[i-1] == "renameat" || ops0[i-1] == "renameat2" {
				// Cross-device rename: the copy fallback runs; then fail
				// inside the fallback too.
				n1, ops1 := iteration(fmt.Sprintf("EXDEV-at-%d/%d", i, n0), i, unix.EXDEV, 0, false, 0)
				budget--
				s.Count("probe.cross_device_fallback", 1)
				for j := i + 1; j <= n1 && j <= i+12 && budget > 0 && !s.Violated(); j++ {
					iteration(fmt.Sprintf("EXDEV-at-%d-then-EIO-at-%d/%d(%s)", i, j, n1, ops1[j-1]), i, unix.EXDEV, 0, false, j)
					budget--
				}
			}
			if er.Chance(1, 2) && budget > 0 {
				iteration(fmt.Sprintf("cancel-at-%d/%d", i, n0), 0, nil, i, false, 0)
				budget--
			}
		}
		if budget > 0 && !s.Violated() {
			iteration("staged-files-missing", 0, nil, 0, true, 0)
		}
	})
	res.NonTrivial = nontrivial
	res.Fingerprint = res.JournalHash
	return res
}

func hasProblem(e *core.Entry) bool {
	found := false
	walk(e, "", func(_ string, x *core.Entry) {
		if x.Kind == core.EntryKind_Problematic {
			found = true
		}
	})
	return found
}

// classOfOps names the failing call site: the operation that received the
// fault (stable across runs), for matching against known findings.
func classOfOps(ops []string, failAt, cancelAt int, drop bool) string {
	switch {
	case drop:
		return "staged-files-missing"
	case cancelAt > 0:
		return "cancelled"
	case failAt > 0 && failAt <= len(ops):
		return "fault-at-" + ops[failAt-1]
	}
	return "fault-free"
}

// ------------------------------------------------------------------ C12 scan

func genScan(p *simkit.Plan, r *simkit.Rand, tier string) {
	c := p.Cfg
	c["symlink_mode"] = int64(r.Intn(3))     // portable, ignore, posix-raw
	c["permissions_mode"] = int64(r.Intn(2)) // portable, manual
	c["data_seed"] = int64(r.Uint64() >> 1)
	c["entries"] = int64(r.Range(1, 30))
	c["fault"] = int64(r.Intn(3)) // 0 none, 1 one errno, 2 EINTR storm
	c["fault_at"] = int64(r.Range(1, 120))
	c["errno"] = int64(simkit.Pick(r, []int{1, 2}))
}

// buildScanTree populates the beta root with a seeded random tree.
func buildScanTree(c *comp, plan *simkit.Plan) {
	root := c.d.roots["beta"]
	rmAll(root)
	os.Mkdir(root, 0o755)
	r := simkit.NewRand(uint64(plan.C("data_seed")), 11)
	dirs := []string{root}
	names := []string{"a", "b", "c", "file.txt", "x.ign", "keep.ign", "Ünïcode", "with space", temporaryPrefix + "leftover", "\xff\xfebad", "zz"}
	for i := int64(0); i < plan.C("entries"); i++ {
		dir := dirs[r.Intn(len(dirs))]
		name := names[r.Intn(len(names))]
		if r.Chance(1, 3) {
			name = fmt.Sprintf("n%d", r.Intn(50))
		}
		p := filepath.Join(dir, name)
		if _, err := os.Lstat(p); err == nil {
			continue
		}
		switch r.Intn(10) {
		case 0, 1, 2:
			if strings.Count(p[len(root):], "/") < 4 {
				os.Mkdir(p, os.FileMode(simkit.Pick(r, []int{0o755, 0o700, 0o775})))
				dirs = append(dirs, p)
			}
		case 3, 4, 5, 6:
			data := r.Bytes(r.SmallBiased(3000), 256)
			os.WriteFile(p, data, 0o600)
			os.Chmod(p, os.FileMode(simkit.Pick(r, []int{0o644, 0o600, 0o755, 0o711, 0o640, 0o604, 0o001})))
		case 7:
			os.Symlink(simkit.Pick(r, []string{"a", "../b", "./x/../y", "/abs/olute", "..", "../../../../../up", "c:drive", "back\\slash", "x//y", ""}), p)
		case 8:
			mkSpecial(p)
		case 9:
			os.Symlink(strings.Repeat("q", simkit.Pick(r, []int{10, 247, 248})), p)
		}
	}
}

// referenceScan is the walker extended with symlink / permission modes and the
// naming of non-UTF-8 entries.
func referenceScan(abs, rel string, symlinkMode, permMode int64) *core.Entry {
	st, err := os.Lstat(abs)
	if err != nil {
		return nil
	}
	if rel != "" && strings.HasSuffix(abs, ".ign") && (st.IsDir() || st.Mode().IsRegular() || st.Mode()&os.ModeSymlink != 0) {
		return &core.Entry{Kind: core.EntryKind_Untracked}
	}
	switch {
	case st.Mode().IsDir():
		e := dirEntry()
		names, _ := os.ReadDir(abs)
		for _, n := range names {
			name := n.Name()
			if strings.HasPrefix(name, temporaryPrefix) {
				continue
			}
			if !utf8.ValidString(name) {
				e.Contents[strings.ToValidUTF8(name, "�")+" (non-UTF-8)"] = &core.Entry{Kind: core.EntryKind_Problematic, Problem: "non-UTF-8 filename"}
				continue
			}
			childRel := name
			if rel != "" {
				childRel = rel + "/" + name
			}
			if ch := referenceScan(filepath.Join(abs, name), childRel, symlinkMode, permMode); ch != nil {
				e.Contents[name] = ch
			}
		}
		return e
	case st.Mode().IsRegular():
		if strings.HasSuffix(abs, ".ign") {
			return &core.Entry{Kind: core.EntryKind_Untracked}
		}
		data, err := os.ReadFile(abs)
		if err != nil {
			return &core.Entry{Kind: core.EntryKind_Problematic, Problem: "unreadable"}
		}
		sum := sha1Sum(data)
		return &core.Entry{Kind: core.EntryKind_File, Digest: sum, Executable: permMode == 0 && st.Mode()&0o111 != 0}
	case st.Mode()&os.ModeSymlink != 0:
		if strings.HasSuffix(abs, ".ign") {
			return &core.Entry{Kind: core.EntryKind_Untracked}
		}
		target, err := os.Readlink(abs)
		switch symlinkMode {
		case 1:
			return &core.Entry{Kind: core.EntryKind_Untracked}
		case 2:
			if err != nil || target == "" {
				return &core.Entry{Kind: core.EntryKind_Problematic, Problem: "invalid"}
			}
			return &core.Entry{Kind: core.EntryKind_SymbolicLink, Target: target}
		}
		if err != nil || !portableTarget(rel, target) {
			return &core.Entry{Kind: core.EntryKind_Problematic, Problem: "invalid symbolic link"}
		}
		return &core.Entry{Kind: core.EntryKind_SymbolicLink, Target: target}
	default:
		return &core.Entry{Kind: core.EntryKind_Untracked}
	}
}

func execScan(t *testing.T, plan *simkit.Plan) *simkit.Result {
	var nontrivial bool
	res := simkit.Run(t, plan, simkit.Options{MaxSteps: 1000, Horizon: time.Hour}, func(s *simkit.Sim) {
		c := newComp(s, plan)
		defer c.close()
		buildScanTree(c, plan)
		cfg := &synchronization.Configuration{
			WatchMode: synchronization.WatchMode_WatchModeNoWatch,
			Ignores:   []string{"*.ign"},
		}
		switch plan.C("symlink_mode") {
		case 0:
			cfg.SymbolicLinkMode = core.SymbolicLinkMode_SymbolicLinkModePortable
		case 1:
			cfg.SymbolicLinkMode = core.SymbolicLinkMode_SymbolicLinkModeIgnore
		case 2:
			cfg.SymbolicLinkMode = core.SymbolicLinkMode_SymbolicLinkModePOSIXRaw
		}
		if plan.C("permissions_mode") == 1 {
			cfg.PermissionsMode = core.PermissionsMode_PermissionsModeManual
		}
		ep := c.endpoint("beta", false, cfg)
		defer ep.Shutdown()
		c.reset()
		switch plan.C("fault") {
		case 1:
			c.failAt["scan"] = map[int]error{int(plan.C("fault_at")): errnos[plan.C("errno")]}
		case 2:
			// Spurious EINTR is retried inside the wrappers: the hook cannot
			// return EINTR without skipping the call, so EINTR is modelled
			// by the retry loops being exercised through real signals only;
			// here the slot is used for a second plain errno.
			c.failAt["scan"] = map[int]error{int(plan.C("fault_at")): unix.EIO, int(plan.C("fault_at")) + 7: unix.EACCES}
		}
		snap, err, _ := ep.Scan(context.Background(), nil, true)
		faulted := append([]string(nil), c.faulted...)
		c.failAt = map[string]map[int]error{}
		if err != nil {
			if len(faulted) == 0 {
				s.Violate("C12", "scan-error", "Scan", "fault-free scan failed: %v", err)
			}
			s.Count("probe.scan_failed_under_fault", 1)
			return
		}
		nontrivial = true
		ref := referenceScan(c.d.roots["beta"], "", plan.C("symlink_mode"), plan.C("permissions_mode"))
		// Compare; differences are only acceptable at or below a faulted path
		// where the snapshot reports a problem.
		excused := func(p string) bool {
			for _, f := range faulted {
				if pathWithin(p, f) || pathWithin(f, p) {
					return true
				}
			}
			return false
		}
		var diffs []string
		var cmp func(p string, a, b *core.Entry)
		cmp = func(p string, a, b *core.Entry) {
			if a == nil || b == nil {
				if a != b && !excused(p) {
					diffs = append(diffs, fmt.Sprintf("%q: snapshot %s, disk %s", p, render(a), render(b)))
				}
				return
			}
			if a.Kind == core.EntryKind_Problematic && excused(p) {
				s.Count("probe.problematic_due_to_fault", 1)
				return
			}
			if a.Kind != b.Kind || a.Executable != b.Executable || string(a.Digest) != string(b.Digest) || a.Target != b.Target {
				if !excused(p) {
					diffs = append(diffs, fmt.Sprintf("%q: snapshot %s, disk %s", p, render(a), render(b)))
				}
				return
			}
			names := map[string]bool{}
			for n := range a.Contents {
				names[n] = true
			}
			for n := range b.Contents {
				names[n] = true
			}
			for n := range names {
				cp := n
				if p != "" {
					cp = p + "/" + n
				}
				cmp(cp, a.Contents[n], b.Contents[n])
			}
		}
		cmp("", snap.Content, ref)
		sort.Strings(diffs)
		if len(diffs) > 0 {
			s.Violate("C12", "snapshot-differs", fmt.Sprintf("symlinks%d-perms%d", plan.C("symlink_mode"), plan.C("permissions_mode")), "%d difference(s), first: %s (faulted paths %v)", len(diffs), diffs[0], faulted)
		}
		// Counts describe the snapshot's own content.
		var dirs, files, links, size uint64
		walk(snap.Content, "", func(p string, x *core.Entry) {
			switch x.Kind {
			case core.EntryKind_Directory:
				dirs++
			case core.EntryKind_File:
				files++
				if st, err := os.Lstat(filepath.Join(c.d.roots["beta"], p)); err == nil {
					size += uint64(st.Size())
				}
			case core.EntryKind_SymbolicLink:
				links++
			}
		})
		if snap.Directories != dirs || snap.Files != files || snap.SymbolicLinks != links || (snap.TotalFileSize != size && len(faulted) == 0) {
			s.Violate("C12", "counts-differ", "Snapshot", "snapshot reports %d directories, %d files, %d links, %d bytes; its content has %d, %d, %d, %d", snap.Directories, snap.Files, snap.SymbolicLinks, snap.TotalFileSize, dirs, files, links, size)
		}
		if hasProblem(snap.Content) {
			s.Count("probe.problematic_entries", 1)
		}
		s.Logf("scan", "%d entries ok: %s", plan.C("entries"), render(snap.Content))
	})
	res.NonTrivial = nontrivial
	res.Fingerprint = res.JournalHash
	return res
}
