package syncsim

import (
	"context"
	"errors"
	"fmt"
	"io"
	"os"
	"path/filepath"
	"strings"
	"testing"
	"time"

	"google.golang.org/protobuf/proto"

	"github.com/mutagen-io/mutagen/pkg/synchronization"
	"github.com/mutagen-io/mutagen/pkg/synchronization/core"
	"github.com/mutagen-io/mutagen/pkg/synchronization/rsync"

	"verif/simkit"
)

func evenMoreComponentScenarios(property string) []string {
	switch property {
	case "C10":
		return []string{"lossy"}
	}
	return lastComponentScenarios(property)
}

func genEvenMoreComponents(p *simkit.Plan, r *simkit.Rand, tier string) {
	switch p.Scenario {
	case "lossy":
		genLossy(p, r, tier)
	default:
		genLastComponents(p, r, tier)
	}
}

func execEvenMoreComponents(t *testing.T, plan *simkit.Plan) *simkit.Result {
	switch plan.Scenario {
	case "lossy":
		return execLossy(t, plan)
	}
	return execLastComponents(t, plan)
}

// --------------------------------------------------- C10 lossy staging link

func genLossy(p *simkit.Plan, r *simkit.Rand, tier string) {
	c := p.Cfg
	var id int64 = 100
	for i := r.Range(2, 8); i > 0; i-- {
		id++
		content := id
		if r.Chance(1, 3) {
			content = 100 + int64(r.Range(1, 3))
		}
		p.Ops = append(p.Ops, simkit.Op{Actor: "init", Kind: "putbig", N: []int64{content, int64(r.Intn(2)), int64(r.SmallBiased(40000))}, S: []string{"alpha", simkit.Pick(r, pathVocabulary)}})
	}
	for i := r.Range(0, 5); i > 0; i-- {
		id++
		content := id
		if r.Chance(1, 2) {
			content = 100 + int64(r.Range(1, 3))
		}
		p.Ops = append(p.Ops, simkit.Op{Actor: "init", Kind: "putbig", N: []int64{content, 0, int64(r.SmallBiased(40000))}, S: []string{"beta", simkit.Pick(r, pathVocabulary)}})
	}
	// Fault rules on the transmission stream (Nth transmission, 1-based).
	for k := r.Range(0, 3); k > 0; k-- {
		p.Faults = append(p.Faults, simkit.Fault{Kind: simkit.Pick(r, []string{"tx_corrupt", "tx_drop", "tx_dup", "tx_truncate", "tx_early_done", "tx_swap", "tx_blockshift"}), Key: "link", Nth: r.Range(1, 12), Arg: int64(r.Range(0, 1000))})
	}
	c["edit_source_during_supply"] = int64(r.Intn(4)) // 1 = yes
	c["delete_staged"] = int64(r.Intn(5))             // 1 = yes
	c["edit_at"] = int64(r.Range(1, 30))
	c["internal_staging"] = int64(r.Intn(2))
	// A finite staging size limit placed just below, at, or above the size of
	// one of the planned files (0 = unlimited).
	c["staging_limit_delta"] = int64(simkit.Pick(r, []int{0, 0, 1, 2, 100, 5000, -1, -300}))
	c["staging_limit_file"] = int64(r.Intn(8))
}

// lossyEncoder applies the plan's fault rules to the transmission stream and
// queues the (possibly altered) transmissions for the real receiver.
type lossyEncoder struct {
	s     *simkit.Sim
	queue []*rsync.Transmission
	n     int
	held  *rsync.Transmission
	cut   bool
}

func (e *lossyEncoder) Encode(t *rsync.Transmission) error {
	e.n++
	if e.cut {
		return nil
	}
	m := proto.Clone(t).(*rsync.Transmission)
	f := func(kind string) *simkit.Fault { return e.s.MatchFault(kind, "link", e.n) }
	if x := f("tx_corrupt"); x != nil && m.Operation != nil && len(m.Operation.Data) > 0 {
		m.Operation.Data[int(x.Arg)%len(m.Operation.Data)] ^= 0x5a
	}
	if x := f("tx_blockshift"); x != nil && m.Operation != nil && len(m.Operation.Data) == 0 && m.Operation.Count > 0 {
		m.Operation.Start++
	}
	if f("tx_drop") != nil {
		return nil
	}
	if f("tx_truncate") != nil {
		e.cut = true
		return nil
	}
	if f("tx_early_done") != nil && !m.Done {
		e.queue = append(e.queue, &rsync.Transmission{Done: true})
	}
	if f("tx_swap") != nil && e.held == nil {
		e.held = m
		return nil
	}
	e.queue = append(e.queue, m)
	if e.held != nil {
		e.queue = append(e.queue, e.held)
		e.held = nil
	}
	if f("tx_dup") != nil {
		e.queue = append(e.queue, proto.Clone(m).(*rsync.Transmission))
	}
	return nil
}

func (e *lossyEncoder) Finalize() error { return nil }

type queueDecoder struct{ queue []*rsync.Transmission }

func (d *queueDecoder) Decode(t *rsync.Transmission) error {
	if len(d.queue) == 0 {
		return io.ErrUnexpectedEOF
	}
	proto.Reset(t)
	proto.Merge(t, d.queue[0])
	d.queue = d.queue[1:]
	return nil
}
func (d *queueDecoder) Finalize() error { return nil }

func execLossy(t *testing.T, plan *simkit.Plan) *simkit.Result {
	var nontrivial bool
	res := simkit.Run(t, plan, simkit.Options{MaxSteps: 1000, Horizon: time.Hour}, func(s *simkit.Sim) {
		c := newComp(s, plan)
		defer c.close()
		c.rebuild(plan)
		cfg := &synchronization.Configuration{WatchMode: synchronization.WatchMode_WatchModeNoWatch, Ignores: []string{"*.ign"}}
		if plan.C("internal_staging") == 1 {
			cfg.StageMode = synchronization.StageMode_StageModeInternal
		}
		if delta := plan.C("staging_limit_delta"); delta != 0 {
			// Pick the size of the k-th source file as the reference.
			var sizes []int64
			filepath.Walk(c.d.roots["alpha"], func(p string, info os.FileInfo, err error) error {
				if err == nil && info.Mode().IsRegular() {
					sizes = append(sizes, info.Size())
				}
				return nil
			})
			if len(sizes) > 0 {
				ref := sizes[int(plan.C("staging_limit_file"))%len(sizes)]
				if limit := ref - delta; limit > 0 {
					cfg.MaximumStagingFileSize = uint64(limit)
					s.Count("probe.staging_size_limit_set", 1)
				}
			}
		}
		ctx := context.Background()
		src := c.endpoint("alpha", true, cfg)
		dst := c.endpoint("beta", false, cfg)
		defer src.Shutdown()
		defer dst.Shutdown()
		ss, err, _ := src.Scan(ctx, nil, true)
		if err != nil {
			return
		}
		ds, err, _ := dst.Scan(ctx, nil, true)
		if err != nil || ss.Content == nil || ds.Content == nil || ss.Content.Kind != core.EntryKind_Directory || ds.Content.Kind != core.EntryKind_Directory {
			return
		}
		transitions := topLevelPlan(ss.Content, ds.Content)
		paths, digests := core.TransitionDependencies(transitions)
		if len(paths) == 0 {
			return
		}
		filtered, sigs, receiver, err := dst.Stage(paths, digests)
		if err != nil {
			s.Logf("driver", "stage failed: %v", err)
			return
		}
		before := c.d.walkTree("beta")
		if len(filtered) > 0 {
			// The user rewrites a source file while it is being supplied.
			if plan.C("edit_source_during_supply") == 1 {
				at := int(plan.C("edit_at"))
				victim := filtered[at%len(filtered)]
				c.reset()
				prev := c.hookExtra
				c.hookExtra = func(activity, op string, n int) {
					if activity == "supply" && n == at {
						abs := filepath.Join(c.d.roots["alpha"], victim)
						if st, err := os.Lstat(abs); err == nil && st.Mode().IsRegular() {
							os.WriteFile(abs, []byte(fmt.Sprintf("rewritten-during-supply-%d", plan.Seed)), 0o644)
							c.d.touch(abs)
							s.Count("fault.source_rewritten_during_supply", 1)
						}
					}
				}
				defer func() { c.hookExtra = prev }()
			}
			enc := &lossyEncoder{s: s}
			if err := src.Supply(filtered, sigs, rsync.NewEncodingReceiver(enc)); err != nil {
				s.Logf("driver", "supply failed: %v", err)
			}
			c.hookExtra = nil
			derr := rsync.DecodeToReceiver(&queueDecoder{enc.queue}, uint64(len(filtered)), receiver)
			s.Logf("driver", "%d transmissions forwarded (of %d), receiver: %v", len(enc.queue), enc.n, derr)
		}
		if plan.C("delete_staged") == 1 {
			removed := 0
			for _, dir := range []string{filepath.Join(c.dataDir, "staging"), c.d.roots["beta"]} {
				filepath.Walk(dir, func(p string, info os.FileInfo, err error) error {
					if err == nil && info.Mode().IsRegular() && (strings.Contains(p, "/staging/") || strings.Contains(p, ".mutagen-staging")) && removed < 1 {
						os.Remove(p)
						removed++
					}
					return nil
				})
			}
			if removed > 0 {
				s.Count("fault.staged_file_removed", 1)
			}
		}
		results, problems, missing, err := dst.Transition(ctx, transitions)
		if err != nil {
			s.Violate("C10", "transition-error", "Transition", "Transition failed: %v", err)
			return
		}
		nontrivial = true
		after := c.d.walkTree("beta")
		incomplete := false
		for i, tr := range transitions {
			if !deepEqual(results[i], tr.New) {
				incomplete = true
			}
			// Every file now on disk under a transitioned path that was not
			// there (with that content) before carries the planned digest.
			walk(lookup(after, tr.Path), tr.Path, func(p string, e *core.Entry) {
				if e.Kind != core.EntryKind_File {
					return
				}
				was := lookup(before, p)
				if was != nil && was.Kind == core.EntryKind_File && string(was.Digest) == string(e.Digest) {
					return // untouched
				}
				rel := strings.TrimPrefix(strings.TrimPrefix(p, tr.Path), "/")
				planned := lookup(tr.New, rel)
				s.Count("probe.written_files_checked", 1)
				if planned == nil || planned.Kind != core.EntryKind_File || string(planned.Digest) != string(e.Digest) {
					s.Violate("C10", "wrong-content-in-root", "Transition", "file %q was written into the root with digest %x, the plan names %s", p, e.Digest[:4], render(planned))
				}
			})
			if on := syncPart(lookup(after, tr.Path)); !deepEqual(on, results[i]) {
				s.Violate("C09", "result-differs-from-disk", "lossy", "transition at %q reported %s, the root holds %s", tr.Path, render(results[i]), render(on))
			}
		}
		// Nothing but the transfer is disturbed in this scenario: a planned file
		// that did not make it into the root had no usable staged content, and
		// that has to be reported as missing files (the controller stages again
		// at once on that signal; a mere problem makes it wait for the next
		// filesystem event).
		unplaced := ""
		for i, tr := range transitions {
			walk(tr.New, tr.Path, func(p string, planned *core.Entry) {
				if planned.Kind != core.EntryKind_File {
					return
				}
				rel := strings.TrimPrefix(strings.TrimPrefix(p, tr.Path), "/")
				old := lookup(tr.Old, rel)
				if old != nil && old.Kind == core.EntryKind_File && string(old.Digest) == string(planned.Digest) {
					return // only the mode was to change: no content needed
				}
				got := lookup(results[i], rel)
				if (got == nil || got.Kind != core.EntryKind_File || string(got.Digest) != string(planned.Digest)) && unplaced == "" {
					unplaced = p
				}
			})
		}
		if unplaced != "" {
			s.Count("probe.unplaced_files", 1)
			if !missing {
				s.Violate("C10", "missing-files-not-reported", "Transition", "the planned file %q did not reach the root (its transfer was corrupt, truncated, mismatched or lost), yet the transition does not report missing files (%d problems)", unplaced, len(problems))
			}
		}
		if incomplete && !missing && len(problems) == 0 {
			s.Violate("C10", "silent-failure", "Transition", "planned content did not reach the root, yet neither missing files nor a problem was reported")
		}
		if missing {
			s.Count("probe.missing_files_reported", 1)
		}
		if !incomplete {
			s.Count("probe.complete_despite_faults", 1)
		}
	})
	res.NonTrivial = nontrivial
	res.Fingerprint = res.JournalHash
	return res
}

var _ = errors.New
