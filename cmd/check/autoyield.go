package main

import (
	"fmt"
	"go/ast"
	"go/parser"
	"go/token"
	"os"
	"os/exec"
	"path/filepath"
	"sort"
	"strings"
)

// Automatic yield sites. The hand-placed verif.Yield calls in /repo mark the
// interleaving points of the code as it is today; a change that opens a new
// window (releases a lock in the middle of a loop, say) has no yield site in
// it, and a cooperative scheduler would never interleave anything there. For
// the small packages whose whole point is their locking discipline, the
// engines are therefore built from instrumented copies (through the same
// overlay as the runtime files, made from the current tree at every build, /repo
// itself is not touched): a yield before every statement that takes a lock and
// after every statement (also a deferred one) that releases one - the points at which the calling
// goroutine holds one lock fewer than in between, so parking there cannot wedge
// anybody waiting for that lock. Insertions stay on the line of the statement
// (line numbers in stack traces are those of /repo).

var autoYieldPackages = []string{"pkg/state", "pkg/prompting", "pkg/synchronization"}

// In these packages the interleaving points are system calls on a shared file
// (the daemon lock): a yield before every statement that calls unix.Fcntl*.
var autoYieldSyscallPackages = []string{"pkg/filesystem/locking"}

const autoYieldImport = "import verifauto \"github.com/mutagen-io/mutagen/pkg/verif\"; "

type insertion struct {
	offset int
	text   string
}

// repoDir asks the go command where the module under test lives (the replace
// directive of the harness module: /repo, or a snapshot of it).
func repoDir(root string) (string, error) {
	cmd := exec.Command(goTool, "list", "-m", "-f", "{{.Dir}}", "github.com/mutagen-io/mutagen")
	cmd.Dir = root
	cmd.Env = goEnv()
	out, err := cmd.Output()
	if err != nil {
		return "", fmt.Errorf("go list -m: %v", err)
	}
	return strings.TrimSpace(string(out)), nil
}

// autoYieldFiles writes instrumented copies beneath dir and adds them to the
// overlay map. A file that cannot be parsed is left alone (the build will say
// why it does not compile).
func autoYieldFiles(root, dir string, replace map[string]string) (int, error) {
	repo, err := repoDir(root)
	if err != nil {
		return 0, err
	}
	sites := 0
	for _, pkg := range append(append([]string{}, autoYieldPackages...), autoYieldSyscallPackages...) {
		syscalls := false
		for _, sp := range autoYieldSyscallPackages {
			syscalls = syscalls || sp == pkg
		}
		names, _ := filepath.Glob(filepath.Join(repo, pkg, "*.go"))
		sort.Strings(names)
		for _, name := range names {
			if strings.HasSuffix(name, "_test.go") {
				continue
			}
			src, err := os.ReadFile(name)
			if err != nil {
				continue
			}
			if strings.Contains(string(src), "//go:build !verif") {
				continue
			}
			out, n := instrument(name, src, strings.ReplaceAll(pkg, "pkg/", ""), syscalls)
			if n == 0 {
				continue
			}
			dst := filepath.Join(dir, "auto", pkg, filepath.Base(name))
			os.MkdirAll(filepath.Dir(dst), 0o755)
			if old, err := os.ReadFile(dst); err != nil || string(old) != out {
				if err := os.WriteFile(dst, []byte(out), 0o644); err != nil {
					return sites, err
				}
			}
			replace[name] = dst
			sites += n
		}
	}
	return sites, nil
}

func instrument(name string, src []byte, pkg string, syscalls bool) (string, int) {
	fset := token.NewFileSet()
	file, err := parser.ParseFile(fset, name, src, parser.ParseComments)
	if err != nil {
		return "", 0
	}
	var ins []insertion
	counter := map[string]int{}
	for _, decl := range file.Decls {
		fn, ok := decl.(*ast.FuncDecl)
		if !ok || fn.Body == nil {
			continue
		}
		fname := fn.Name.Name
		if fn.Recv != nil && len(fn.Recv.List) == 1 {
			t := fn.Recv.List[0].Type
			if star, ok := t.(*ast.StarExpr); ok {
				t = star.X
			}
			if id, ok := t.(*ast.Ident); ok {
				fname = id.Name + "." + fname
			}
		}
		// Only statements that stand in a statement list are instrumented
		// (text is inserted before or after them on the same line).
		visit := func(list []ast.Stmt) {
			for _, st := range list {
				// "defer x.Unlock()" becomes "defer func() { x.Unlock(); yield }()".
				if ds, ok := st.(*ast.DeferStmt); ok && !syscalls && len(ds.Call.Args) == 0 {
					if sel, ok := ds.Call.Fun.(*ast.SelectorExpr); ok && (sel.Sel.Name == "Unlock" || sel.Sel.Name == "RUnlock") {
						lock := string(src[fset.Position(sel.X.Pos()).Offset:fset.Position(sel.X.End()).Offset])
						counter[fname]++
						site := fmt.Sprintf("auto:%s.%s:after-unlock(%s)#%d", pkg, fname, lock, counter[fname])
						ins = append(ins, insertion{fset.Position(ds.Call.Pos()).Offset, "func() { "})
						ins = append(ins, insertion{fset.Position(ds.End()).Offset, fmt.Sprintf("; verifauto.Yield(%q) }()", site)})
					}
					continue
				}
				// The simple statement that may hold the call: the statement
				// itself, or the initialiser of an if statement.
				simple := st
				if ifs, ok := st.(*ast.IfStmt); ok && ifs.Init != nil {
					simple = ifs.Init
				}
				var call *ast.CallExpr
				isExpr := false
				switch x := simple.(type) {
				case *ast.ExprStmt:
					call, _ = x.X.(*ast.CallExpr)
					isExpr = simple == st
				case *ast.AssignStmt:
					if len(x.Rhs) == 1 {
						call, _ = x.Rhs[0].(*ast.CallExpr)
					}
				}
				if call == nil {
					continue
				}
				sel, ok := call.Fun.(*ast.SelectorExpr)
				if !ok {
					continue
				}
				if syscalls {
					if x, ok := sel.X.(*ast.Ident); ok && x.Name == "unix" && strings.HasPrefix(sel.Sel.Name, "Fcntl") {
						counter[fname]++
						site := fmt.Sprintf("auto:%s.%s:before-syscall#%d", pkg, fname, counter[fname])
						ins = append(ins, insertion{fset.Position(st.Pos()).Offset, fmt.Sprintf("verifauto.Yield(%q); ", site)})
					}
					continue
				}
				if !isExpr || len(call.Args) != 0 {
					continue
				}
				// The site names the lock as the source does ("c.lifecycleLock").
				lock := string(src[fset.Position(sel.X.Pos()).Offset:fset.Position(sel.X.End()).Offset])
				switch sel.Sel.Name {
				case "Lock", "RLock":
					counter[fname]++
					site := fmt.Sprintf("auto:%s.%s:before-lock(%s)#%d", pkg, fname, lock, counter[fname])
					ins = append(ins, insertion{fset.Position(st.Pos()).Offset, fmt.Sprintf("verifauto.Yield(%q); ", site)})
				case "Unlock", "RUnlock":
					counter[fname]++
					site := fmt.Sprintf("auto:%s.%s:after-unlock(%s)#%d", pkg, fname, lock, counter[fname])
					ins = append(ins, insertion{fset.Position(st.End()).Offset, fmt.Sprintf("; verifauto.Yield(%q)", site)})
				}
			}
		}
		ast.Inspect(fn.Body, func(n ast.Node) bool {
			switch x := n.(type) {
			case *ast.BlockStmt:
				visit(x.List)
			case *ast.CaseClause:
				visit(x.Body)
			case *ast.CommClause:
				visit(x.Body)
			}
			return true
		})
	}
	if len(ins) == 0 {
		return "", 0
	}
	// The import goes right after the package clause, on its line.
	pkgEnd := fset.Position(file.Name.End()).Offset
	ins = append(ins, insertion{pkgEnd, "; " + strings.TrimSuffix(autoYieldImport, "; ")})
	sort.SliceStable(ins, func(i, j int) bool { return ins[i].offset > ins[j].offset })
	out := string(src)
	for _, in := range ins {
		out = out[:in.offset] + in.text + out[in.offset:]
	}
	return out, len(ins) - 1
}
