module verif

go 1.26.8

require (
	github.com/anishathalye/porcupine v1.3.0
	github.com/mutagen-io/mutagen v0.0.0
	google.golang.org/protobuf v1.36.11
)

require golang.org/x/sys v0.43.0 // indirect

replace github.com/mutagen-io/mutagen => /repo
