package main

// propSpec describes how one claimed property is checked.
type propSpec struct {
	Engine      string
	Level       string
	QuickSec    float64 // per-worker exploration budget, quick tier
	ThoroughSec float64
	Rule        string
	Assumptions []string
	Real        []string
	Stub        []string
	Probes      []string // probe counters that should be non-zero in a healthy run
	Text        string   // level_claimed.text override
	Technique   string
}

var commonAssumptions = []string{
	"Go runtime, testing/synctest fake clock and quiescence detection are correct",
	"a clean batch of seeded runs is evidence, not proof: schedules, faults and inputs are sampled",
	"the order of goroutines woken by one scheduler step is chosen by the Go runtime (exercised, not controlled)",
}

var properties = map[string]propSpec{
	"C19": {
		Engine: "wiresim", Level: "exploration", QuickSec: 20, ThoroughSec: 600,
		Rule: "one run = one seeded (base, target, block size, max data size) tuple pushed through the real Signature/Deltify/Patch with short-reading readers whose fragment sizes come from the schedule vector; non-trivial = the delta contained at least one operation; distinct = distinct (configuration, journal) fingerprints",
		Assumptions: append([]string{"input space (strings, sizes) is sampled; only I/O fragmentation is a fault here"}, commonAssumptions...),
		Real:        []string{"rsync.Engine.Signature", "rsync.Engine.Deltify", "rsync.Engine.Patch"},
		Stub:        []string{"short-reading io.Reader / io.ReadSeeker driven by the schedule vector"},
		Probes:      []string{"probe.block_ops", "probe.data_ops", "probe.short_read"},
	},
	"C20": {
		Engine: "wiresim", Level: "fault_enumeration", QuickSec: 20, ThoroughSec: 600,
		Rule: "one run = one seeded base/target set; a fault-free pass counts the transmit calls M, then every call index 1..M is failed once and persistently (enum.positions counts the injected positions) under Engine.Deltify and under rsync.Transmit with the real on-disk receiver; non-trivial = at least one position enumerated; distinct = distinct journal fingerprints",
		Assumptions: append([]string{"failure positions are enumerated completely per generated pair; the pairs themselves are sampled"}, commonAssumptions...),
		Real:        []string{"rsync.Engine.Deltify", "rsync.Transmit", "rsync receiver (NewReceiver/DecodeToReceiver)", "filesystem.Opener"},
		Stub:        []string{"failing OperationTransmitter", "failing rsync.Encoder feeding a list decoder", "in-memory Sinker"},
		Probes:      []string{"enum.positions", "fault.transmit_error", "probe.sender_reported_error"},
	},
	"C23": {
		Engine: "muxsim", Level: "exploration", QuickSec: 30, ThoroughSec: 900,
		Rule: "one run = two real multiplexers over a simulated carrier in a synctest bubble; a seeded plan of client operations (open/accept/read/write/half-close/close/deadlines) on up to 8 streams per side, carrier fragmentation, short reads, delay and backpressure; every byte written is position-tagged per stream and direction; a settling phase drains every stream; non-trivial = at least 2 streams established and more than 10 carrier fragments delivered; distinct = distinct canonical journal hashes",
		Assumptions: append([]string{"data-frame payloads become visible to the reading multiplexer only when complete (so the real code never blocks on the carrier while holding Stream.receiveBufferLock); header bytes still trickle in one at a time"}, commonAssumptions...),
		Real:        []string{"multiplexing.Multiplexer (reader, writer, enqueue goroutines)", "multiplexing.Stream", "ring.Buffer", "message encoding"},
		Stub:        []string{"carrier (two in-memory links with seeded fragmentation, delay, capacity, cut)", "client actors", "fake clock"},
		Probes:      []string{"probe.stream_established", "probe.eof", "probe.stream_direction_complete", "probe.link_fragments"},
	},
	"C24": {
		Engine: "muxsim", Level: "exploration", QuickSec: 30, ThoroughSec: 900,
		Rule: "as C23 but the workload adds zero-length reads and writes, deadlines in the past and future, unaccepted opens (rejections), accepts without opens and operations after close, and never closes a multiplexer or fails the carrier; oracle: neither multiplexer closes or reports an internal error, and an independent wire-protocol monitor (own frame parser + per-stream state machine) never flags a sent frame; non-trivial and distinct as C23",
		Assumptions: append([]string{"the wire monitor counts window increments when they are sent (over-approximation of what the peer has received): sound, slightly weaker"}, commonAssumptions...),
		Real:        []string{"multiplexing.Multiplexer", "multiplexing.Stream", "ring.Buffer"},
		Stub:        []string{"carrier", "client actors", "independent wire monitor", "fake clock"},
		Probes:      []string{"probe.zero_read", "probe.zero_write", "probe.open_rejected", "probe.deadline_set", "probe.frames.increment", "probe.frames.close"},
	},
	"C25": {
		Engine: "muxsim", Level: "exploration", QuickSec: 30, ThoroughSec: 900,
		Rule: "as C23 with readers that stop consuming, zero and tiny windows, expiring deadlines, concurrent closes, accept-backlog overflow, multiplexer close and carrier cut at a seeded byte offset; at every quiescent point each in-flight operation must be justified (not past its deadline or context, stream/multiplexer not closed, and - when the carrier is idle - peer not closed, no unread acknowledged data, no available send window); pending opens never exceed the peer backlog at an idle point; non-trivial and distinct as C23",
		Assumptions: append([]string{"liveness is asserted at quiescent points of the simulated system (all goroutines durably blocked), never against wall-clock time"}, commonAssumptions...),
		Real:        []string{"multiplexing.Multiplexer", "multiplexing.Stream", "ring.Buffer"},
		Stub:        []string{"carrier with cut fault and capacity", "client actors", "fake clock"},
		Probes:      []string{"probe.open_rejected", "probe.deadline_set", "fault.link_cut", "probe.mux_closed_by_plan", "probe.carrier_backpressure"},
	},
	"C26": {
		Engine: "muxsim", Level: "exploration", QuickSec: 15, ThoroughSec: 300,
		Rule: "one run = one seeded operation sequence (Write/WriteByte/Read/ReadByte/ReadNFrom/WriteTo/Reset) on the real ring.Buffer with capacities 0..100, readers that return short counts, n+EOF together or an error, and writers that accept short counts or fail after a limit; every result, the bytes handed to or taken from the peer, and Used/Free are compared with a slice-backed bounded FIFO after every operation; non-trivial = at least 3 operations; distinct = distinct (capacity, sequence)",
		Assumptions: append([]string{"single-threaded: the only simulated environment is the connected reader/writer; sequences are sampled, not enumerated"}, commonAssumptions...),
		Real:        []string{"ring.Buffer"},
		Stub:        []string{"short-reading / failing io.Reader", "short-writing / failing io.Writer", "slice-backed reference queue"},
		Probes:      []string{"probe.ring_full", "probe.ring_empty"},
	},
	"C30": {
		Engine: "primsim", Level: "exploration", QuickSec: 20, ThoroughSec: 600,
		Rule: "one run = real state.Tracker (+TrackingLock) in a synctest bubble driven by notifier, waiter (zero / last-seen / stale / future index), canceller and terminator actors; guarded yield sites before every lock acquisition let the seeded scheduler order critical sections; oracles: per-return bounds on indices from the completed/started notification counts, liveness at every quiescent point (a stale, cancelled or terminated waiter may not still be blocked), and a porcupine linearizability check of the invoke/return history (stamped with a global event sequence) against an (index, terminated) model; non-trivial = at least 4 completed operations including a notification; distinct = distinct canonical journal hashes",
		Assumptions: append([]string{"the tracker's own goroutine runs to its next Cond.Wait between two scheduler steps (it cannot be delayed between wake-up and re-locking without modifying sync.Cond)"}, commonAssumptions...),
		Real:        []string{"state.Tracker", "state.TrackingLock"},
		Stub:        []string{"client actors", "seeded yields", "porcupine reference model"},
		Probes:      []string{"probe.porcupine_checked", "probe.cancel_inflight", "probe.yield.tracker.notify", "probe.yield.tracker.wait"},
	},
	"C31": {
		Engine: "primsim", Level: "exploration", QuickSec: 20, ThoroughSec: 600,
		Rule: "one run = real state.Coalescer with window 0..50 ms on the fake clock; strobe bursts with gaps just below/above the window, a consumer that is absent, slow or waiting, termination at a seeded time; oracle: an event-level reference model (timer fires at last-strobe+window, one-slot buffer, drop when full) predicts the exact simulated instant at which each receive gets its signal and the number of signals buffered at rest; non-trivial = at least 2 strobes and 1 predicted signal; distinct = distinct journal hashes",
		Assumptions: append([]string{"gaps carry odd microsecond offsets so that no two timers expire together (the runtime, not the seed, would order them)"}, commonAssumptions...),
		Real:        []string{"state.Coalescer"},
		Stub:        []string{"strobe / consume / terminate actors", "fake clock", "reference model"},
		Probes:      []string{"probe.bursts", "probe.coalesced_strobes", "probe.signal_dropped_buffer_full"},
	},
	"C32": {
		Engine: "primsim", Level: "exploration", QuickSec: 20, ThoroughSec: 600,
		Rule: "one run = the real prompting registry with a simulator-owned prompter that parks inside Message/Prompt; concurrent callers and an unregistering actor are interleaved by the seeded scheduler at guarded yield sites; oracles: never two invocations in progress, none starts after UnregisterPrompter returned, UnregisterPrompter never returns during an invocation, callers after unregistration get an error (a panic kills the worker and is reported as a process-crash finding); every prompt string issued also checks the echo/secret response mode against the four documented suffixes; non-trivial = at least 2 prompter invocations; distinct = distinct journal hashes",
		Assumptions: append([]string{"the response-mode clause is a pure function observed through the guarded export prompting.VerifDetermineResponseMode"}, commonAssumptions...),
		Real:        []string{"prompting.RegisterPrompterWithIdentifier / UnregisterPrompter / Message / Prompt", "prompting.determineResponseMode"},
		Stub:        []string{"blocking prompter", "caller actors"},
		Probes:      []string{"probe.error_after_unregister", "probe.echo_prompt", "probe.secret_prompt", "probe.yield.prompting.unregister.acquire"},
	},
	"C22": {
		Engine: "wiresim", Level: "exploration", QuickSec: 25, ThoroughSec: 600,
		Rule: "one run = a seeded message sequence (empty, tiny, >64 KiB) with seeded flush points written through ProtobufEncoder -> bufio -> compressor (none/deflate) -> bufio -> simulated link -> bufio -> decompressor -> bufio -> ProtobufDecoder, assembled as the remote endpoint does; the link fragments (down to single bytes), delays and short-reads under the seeded scheduler; oracles: decoded sequence equals written sequence, at every quiescent point with an idle link everything written before the last Flush has been decoded, and a declared size above the limit is rejected without allocating it; non-trivial = at least 2 messages; distinct = distinct journal hashes",
		Assumptions: append([]string{"zstandard is not compiled into non-SSPL builds and is not exercised"}, commonAssumptions...),
		Real:        []string{"encoding.ProtobufEncoder/Decoder", "compression.Algorithm.Compress/Decompress", "stream.MultiFlusher", "bufio layering as in remote"},
		Stub:        []string{"simulated link (fragmentation, short reads, delay)", "writer/reader actors"},
		Probes:      []string{"probe.flushes", "probe.link_fragments", "probe.oversize_rejected"},
	},
	"C34": {
		Engine: "wiresim", Level: "fault_enumeration", QuickSec: 25, ThoroughSec: 600,
		Rule: "one run = the real client side (agent.ClientHandshake + mutagen.ClientVersionHandshake) and the real server side over a simulated link, followed by a one-byte application exchange; enumerated per run (enum.cases): the untouched exchange, every single-byte corruption and every truncation point of the 15 bytes of each direction, every single-field perturbation (3 magic bytes, major, minor, patch) by a simulated peer on either side, and a reference peer built from the documented constants; fragment sizes, XOR mask and version delta are seeded; non-trivial = at least 10 cases enumerated; distinct = distinct journal hashes",
		Assumptions: append([]string{"with in-flight corruption of one direction only the sender of the corrupted bytes cannot know; 'both sides fail' is therefore checked as: the receiver of altered bytes fails and no application exchange completes on either side; a real field mismatch is played by a simulated peer"}, commonAssumptions...),
		Real:        []string{"agent.ClientHandshake/ServerHandshake", "mutagen.ClientVersionHandshake/ServerVersionHandshake"},
		Stub:        []string{"simulated link with corruption/truncation", "simulated mismatching and reference peers"},
		Probes:      []string{"enum.cases", "fault.link_corrupt", "fault.link_truncate"},
	},
	"C44": {
		Engine: "wiresim", Level: "exploration", QuickSec: 20, ThoroughSec: 600,
		Rule: "one run = up to three logging actors on one real Logger (random level, with or without scope) issuing records and relaying byte streams through Logger.Writer in seeded fragments; payloads are built from newlines, carriage returns, escape sequences, forged timestamp/level prefixes and random text; every write that reaches the sink must be exactly one line without CR/ESC, carrying timestamp, level and scope; the number of sink writes must equal the number of records/complete lines at enabled levels per an independent reference; non-trivial = at least 2 sink writes; distinct = distinct journal hashes",
		Assumptions: append([]string{"the sink cannot park a writer (the logger holds a sync.Mutex around the sink write), so interleaving inside a line is checked as 'every sink write is a whole line'"}, commonAssumptions...),
		Real:        []string{"logging.Logger (log/logf/Writer/Sublogger)", "stream.LineProcessor", "terminal.NeutralizeControlCharacters", "stream.ConcurrentWriter"},
		Stub:        []string{"sink monitor", "logging actors", "fragmenting relay"},
		Probes:      []string{"probe.forged_prefix_line"},
	},
	"C47": {
		Engine: "wiresim", Level: "exploration", QuickSec: 15, ThoroughSec: 300,
		Rule: "one run = one stream helper (cutoff, line processor, hashed, preemptable, valve, multi-closer) driven by a seeded write sequence over a downstream writer that accepts short counts (with io.ErrShortWrite) or fails every k-th call, with cancellation / Shut at a seeded index; each helper is compared with its documented contract computed independently; non-trivial = at least 2 operations; distinct = distinct (configuration, sequence)",
		Assumptions: append([]string{"single-threaded: the only simulated environment is the downstream writer and the cancellation point"}, commonAssumptions...),
		Real:        []string{"stream.NewCutoffWriter", "stream.LineProcessor", "stream.NewHashedWriter", "stream.NewPreemptableWriter", "stream.ValveWriter", "stream.NewMultiCloser"},
		Stub:        []string{"short-writing / failing downstream writer"},
		Probes:      []string{"probe.cutoff_reached", "probe.line_limit_hit", "probe.preempted", "probe.valve_discarded", "fault.downstream_error", "fault.downstream_short"},
	},
	"C01": {
		Engine: "syncsim", Level: "exploration", QuickSec: 30, ThoroughSec: 900,
		Rule: "one run = the real Manager and controller in a synctest bubble over two model endpoints; a seeded history of user edits (create, overwrite, delete, mkdir, symlink, chmod) on both sides is interleaved by the seeded scheduler with the gates of every endpoint method (connect, poll, scan, stage, transition, shutdown) and with flushes, so edits land in every phase of a cycle; a fault-free settling phase follows; mode two-way-safe; oracle at every Transition call: each non-directory entry the change destroys equals the entry the saved archive file records at that path; at rest: differing content at one path is covered by a reported conflict; non-trivial = at least one transition applied and two plans evaluated; distinct = distinct canonical journal hashes + final trees",
		Assumptions: append([]string{"the model endpoint refuses a change whose old entry no longer matches its tree (what C08 requires of the real endpoint); the disk scenario (built separately) covers the real endpoint"}, commonAssumptions...),
		Real:        []string{"synchronization.Manager", "synchronization controller (run loop, synchronize, halt/resume/reset/flush)", "core.Reconcile / Apply / PropagateExecutability as driven by the controller", "session and archive persistence (encoding.MarshalAndSaveProtobuf, WriteFileAtomic)", "state.Tracker / TrackingLock", "logging"},
		Stub:        []string{"model endpoints (in-memory trees; transition outcomes chosen by the plan)", "simulated user", "client actors", "fake clock"},
		Probes:      []string{"probe.transitions_applied", "probe.plans_checked", "probe.conflicts", "probe.reached_rest"},
	},
	"C02": {
		Engine: "syncsim", Level: "exploration", QuickSec: 30, ThoroughSec: 900,
		Rule: "one run = the real Manager and controller in a synctest bubble over two model endpoints; a seeded history of user edits (create, overwrite, delete, mkdir, symlink, chmod) on both sides is interleaved by the seeded scheduler with the gates of every endpoint method (connect, poll, scan, stage, transition, shutdown) and with flushes, so edits land in every phase of a cycle; a fault-free settling phase follows; modes two-way-resolved, one-way-safe and one-way-replica; oracles: in one-way modes no Stage or non-empty Transition ever reaches alpha; in one-way-safe (beta) and two-way-resolved (alpha) every destroyed non-directory entry equals the archive file at that path; non-trivial and distinct as C01",
		Assumptions: append([]string{"as C01; the read-only guard of the real local endpoint is covered by the disk scenario"}, commonAssumptions...),
		Real:        []string{"synchronization.Manager", "synchronization controller (run loop, synchronize, halt/resume/reset/flush)", "core.Reconcile / Apply / PropagateExecutability as driven by the controller", "session and archive persistence (encoding.MarshalAndSaveProtobuf, WriteFileAtomic)", "state.Tracker / TrackingLock", "logging"},
		Stub:        []string{"model endpoints (in-memory trees; transition outcomes chosen by the plan)", "simulated user", "client actors", "fake clock"},
		Probes:      []string{"probe.transitions_applied", "probe.plans_checked", "probe.reached_rest"},
	},
	"C03": {
		Engine: "syncsim", Level: "exploration", QuickSec: 30, ThoroughSec: 900,
		Rule: "one run = the real Manager and controller in a synctest bubble over two model endpoints; a seeded history of user edits (create, overwrite, delete, mkdir, symlink, chmod, untracked and problematic entries at any depth) on both sides is interleaved by the seeded scheduler with the gates of every endpoint method (connect, poll, scan, stage, transition, shutdown) and with flushes, so edits land in every phase of a cycle; a fault-free settling phase follows; all four modes; oracle at every Transition call: no change carries unsynchronizable content in its old entry, and no change is applied at a path where the endpoint holds untracked or problematic content at or below it (a conflict must be reported instead); non-trivial and distinct as C01",
		Assumptions: append([]string{"phantom directories (Docker-style ignores) are not generated"}, commonAssumptions...),
		Real:        []string{"synchronization.Manager", "synchronization controller (run loop, synchronize, halt/resume/reset/flush)", "core.Reconcile / Apply / PropagateExecutability as driven by the controller", "session and archive persistence (encoding.MarshalAndSaveProtobuf, WriteFileAtomic)", "state.Tracker / TrackingLock", "logging"},
		Stub:        []string{"model endpoints (in-memory trees; transition outcomes chosen by the plan)", "simulated user", "client actors", "fake clock"},
		Probes:      []string{"probe.transitions_applied", "probe.conflicts", "probe.plans_checked"},
	},
	"C04": {
		Engine: "syncsim", Level: "exploration", QuickSec: 30, ThoroughSec: 900,
		Rule: "one run = the real Manager and controller in a synctest bubble over two model endpoints; a seeded history of user edits (create, overwrite, delete, mkdir, symlink, chmod) on both sides is interleaved by the seeded scheduler with the gates of every endpoint method (connect, poll, scan, stage, transition, shutdown) and with flushes, so edits land in every phase of a cycle; a fault-free settling phase follows; all modes; after the history a flush brings the session to rest, then a quiet flush must reach no endpoint with a Stage or Transition and must not rewrite the archive file; in two-way modes both trees must be equal outside reported conflicts and the archive must equal the common content; asserted only for ideal runs (every planned change applied exactly); non-trivial and distinct as C01",
		Assumptions: append([]string{"ideal transition results are provided by the model endpoint"}, commonAssumptions...),
		Real:        []string{"synchronization.Manager", "synchronization controller (run loop, synchronize, halt/resume/reset/flush)", "core.Reconcile / Apply / PropagateExecutability as driven by the controller", "session and archive persistence (encoding.MarshalAndSaveProtobuf, WriteFileAtomic)", "state.Tracker / TrackingLock", "logging"},
		Stub:        []string{"model endpoints (in-memory trees; transition outcomes chosen by the plan)", "simulated user", "client actors", "fake clock"},
		Probes:      []string{"probe.reached_rest", "probe.convergence_checked"},
	},
	"C05": {
		Engine: "syncsim", Level: "fault_enumeration", QuickSec: 30, ThoroughSec: 900,
		Rule: "one run = the real Manager and controller in a synctest bubble over two model endpoints; a seeded history of user edits (create, overwrite, delete, mkdir, symlink, chmod) on both sides is interleaved by the seeded scheduler with the gates of every endpoint method (connect, poll, scan, stage, transition, shutdown) and with flushes, so edits land in every phase of a cycle; a fault-free settling phase follows; every transitioned change may receive an outcome drawn by fault rules from {new, old, nothing, prefix-closed sub-tree of old, prefix-closed sub-tree of new}, a whole-call error, or a scan error with/without retry; oracles: the controller never reports a failed ancestor update, the ancestor handed to the next scans is valid synchronizable content, equals the archive file and records at each transitioned path exactly the reported entry; the archive is loadable at rest and after restarts; non-trivial and distinct as C01",
		Assumptions: append([]string{"outcome positions are sampled per seeded history (Nth transitioned change of a side), not enumerated exhaustively for one history"}, commonAssumptions...),
		Real:        []string{"synchronization.Manager", "synchronization controller (run loop, synchronize, halt/resume/reset/flush)", "core.Reconcile / Apply / PropagateExecutability as driven by the controller", "session and archive persistence (encoding.MarshalAndSaveProtobuf, WriteFileAtomic)", "state.Tracker / TrackingLock", "logging"},
		Stub:        []string{"model endpoints (in-memory trees; transition outcomes chosen by the plan)", "simulated user", "client actors", "fake clock"},
		Probes:      []string{"probe.recorded_results_checked", "fault.outcome", "probe.outcome_class_1", "probe.outcome_class_2", "probe.outcome_class_3", "probe.outcome_class_4"},
	},
	"C06": {
		Engine: "syncsim", Level: "exploration", QuickSec: 30, ThoroughSec: 900,
		Rule: "one run = the real Manager and controller in a synctest bubble over two model endpoints; a seeded history of user edits (create, overwrite, delete, mkdir, symlink, chmod, untracked/problematic entries) on both sides is interleaved by the seeded scheduler with the gates of every endpoint method (connect, poll, scan, stage, transition, shutdown) and with flushes, so edits land in every phase of a cycle; a fault-free settling phase follows; whenever both scans of a cycle have returned, the plan for exactly that (ancestor, alpha, beta) triple and mode is computed with core.Reconcile (after the controller's executability propagation) and checked: no two actions (same or opposite endpoint) at related paths, none related to a conflict root, conflicts valid, two-sided, rooted above all their changes and pairwise unrelated; non-trivial and distinct as C01",
		Assumptions: append([]string{"plans are reached through simulated histories; bounded enumeration of triples would be model checking and is outside this technique"}, commonAssumptions...),
		Real:        []string{"synchronization.Manager", "synchronization controller (run loop, synchronize, halt/resume/reset/flush)", "core.Reconcile / Apply / PropagateExecutability as driven by the controller", "session and archive persistence (encoding.MarshalAndSaveProtobuf, WriteFileAtomic)", "state.Tracker / TrackingLock", "logging"},
		Stub:        []string{"model endpoints (in-memory trees; transition outcomes chosen by the plan)", "simulated user", "client actors", "fake clock"},
		Probes:      []string{"probe.plans_checked", "probe.conflicts"},
	},
	"C11": {
		Engine: "syncsim", Level: "exploration", QuickSec: 30, ThoroughSec: 900,
		Rule: "one run = the real Manager and controller in a synctest bubble over two model endpoints; a seeded history of user edits (create, overwrite, delete, mkdir, symlink, chmod) on both sides is interleaved by the seeded scheduler with the gates of every endpoint method (connect, poll, scan, stage, transition, shutdown) and with flushes, so edits land in every phase of a cycle; a fault-free settling phase follows; after the session converged, one root event (delete root, replace it by a file, empty it, or - control - empty both) is applied to one side; oracles: when the archive holds content (>= 2 root entries for emptying) the session reaches a Halted status, no Stage/Transition reaches either endpoint afterwards, the other endpoint is unchanged, the status is still halted after the 15 s reconnect interval has passed four times; control events do not halt; non-trivial and distinct as C01",
		Assumptions: append([]string{"expectations are asserted only when the session had converged (no conflicts) before the root event"}, commonAssumptions...),
		Real:        []string{"synchronization.Manager", "synchronization controller (run loop, synchronize, halt/resume/reset/flush)", "core.Reconcile / Apply / PropagateExecutability as driven by the controller", "session and archive persistence (encoding.MarshalAndSaveProtobuf, WriteFileAtomic)", "state.Tracker / TrackingLock", "logging"},
		Stub:        []string{"model endpoints (in-memory trees; transition outcomes chosen by the plan)", "simulated user", "client actors", "fake clock"},
		Probes:      []string{"probe.halt_expected", "probe.halt_not_expected", "probe.root_event_kind_0", "probe.root_event_kind_1", "probe.root_event_kind_2"},
	},
	"C18": {
		Engine: "syncsim", Level: "exploration", QuickSec: 30, ThoroughSec: 900,
		Rule: "one run = the real Manager and controller in a synctest bubble over two model endpoints; a seeded history of user edits (create, overwrite, delete, mkdir, symlink, chmod) on both sides is interleaved by the seeded scheduler with the gates of every endpoint method (connect, poll, scan, stage, transition, shutdown) and with flushes, so edits land in every phase of a cycle; a fault-free settling phase follows; one endpoint reports PreservesExecutability=false and never reports executable bits; oracle at every Transition on the preserving endpoint: no file present in both the old and the new entry changes its executable bit; non-trivial and distinct as C01",
		Assumptions: append([]string{"no non-preserving filesystem can be mounted in the sandbox: the non-preserving side is a model endpoint (declared stub)"}, commonAssumptions...),
		Real:        []string{"synchronization.Manager", "synchronization controller (run loop, synchronize, halt/resume/reset/flush)", "core.Reconcile / Apply / PropagateExecutability as driven by the controller", "session and archive persistence (encoding.MarshalAndSaveProtobuf, WriteFileAtomic)", "state.Tracker / TrackingLock", "logging"},
		Stub:        []string{"model endpoints (in-memory trees; transition outcomes chosen by the plan)", "simulated user", "client actors", "fake clock"},
		Probes:      []string{"probe.transitions_applied", "probe.plans_checked"},
	},
	"C29": {
		Engine: "syncsim", Level: "exploration", QuickSec: 30, ThoroughSec: 900,
		Rule: "one run = the real Manager and controller in a synctest bubble over two model endpoints; a seeded history of user edits (create, overwrite, delete, mkdir, symlink, chmod) on both sides is interleaved by the seeded scheduler with the gates of every endpoint method (connect, poll, scan, stage, transition, shutdown) and with flushes, so edits land in every phase of a cycle; a fault-free settling phase follows; client actors issue flush (waiting / not), pause, resume, reset, terminate, list and manager restart in seeded order while endpoint methods park at gates, so commands land in every phase; oracles: no endpoint method or connect starts between the return of Pause and the next Resume (also across restart), Pause/Shutdown return with no method in progress, a waiting Flush returning nil saw a scan start on both endpoints after its invocation and no transition in flight, Terminate removes session and archive files and the session is not reloaded, Reset of a paused session leaves an empty archive, every command returns; non-trivial and distinct as C01",
		Assumptions: append([]string{"lock-holding lifecycle commands are issued one at a time per session (a second caller would block on a sync.Mutex, which synctest cannot treat as durably blocked)"}, commonAssumptions...),
		Real:        []string{"synchronization.Manager", "synchronization controller (run loop, synchronize, halt/resume/reset/flush)", "core.Reconcile / Apply / PropagateExecutability as driven by the controller", "session and archive persistence (encoding.MarshalAndSaveProtobuf, WriteFileAtomic)", "state.Tracker / TrackingLock", "logging"},
		Stub:        []string{"model endpoints (in-memory trees; transition outcomes chosen by the plan)", "simulated user", "client actors", "fake clock"},
		Probes:      []string{"probe.paused", "probe.restarts", "probe.flush_waited_ok", "probe.reset", "probe.terminated"},
	},
	"C08": {
		Engine: "syncsim", Level: "exploration", QuickSec: 40, ThoroughSec: 900,
		Rule: "one run = a real session over two real local endpoints on tmpfs; the simulated user edits both roots (new content with new inode, in-place edit with new mtime, chmod, type change, new children, sockets as unsupported types) while the seeded scheduler interleaves the edits with endpoint-method gates and - per run - syscall-level gates of scan/transition/stage/supply/receive/poll; oracle before every unlinkat / replacing renameat issued by a transition: the entry on disk at that instant (independent walker: kind, sha1, executability, target) equals what the preceding scan of that endpoint recorded, unless the user touched the path after the Transition call began (mutagen's documented check-then-act window); untracked content is never destroyed; non-trivial = at least one transition applied and two scans; distinct = distinct journal hashes + final trees",
		Assumptions: append([]string{"edits scheduled after the Transition call began are excluded for this rule (the property quantifies over edits between scan and transition)"}, commonAssumptions...),
		Real:        []string{"synchronization.Manager and controller", "local endpoint (scan, poll watching, staging, transition, cache)", "core.Scan / core.Transition / core.Reconcile", "rsync transmit/receive", "filesystem package on tmpfs (/dev/shm)", "staging store"},
		Stub:        []string{"simulated user (plain os calls, stamped mtimes)", "independent walker", "syscall hook (gates, errno injection)", "fake clock"},
		Probes:      []string{"probe.destructive_ops", "probe.disk_transitions", "probe.transition_problem_modified", "probe.user_edits"},
	},
	"C16": {
		Engine: "syncsim", Level: "exploration", QuickSec: 30, ThoroughSec: 600,
		Rule: "one run = a real session in portable symbolic link mode; the user plants links at depths 0..3 whose targets are built from the tokens {name, '.', '..', empty} joined by '/' (1..6 tokens), plus absolute, colon, backslash and 246/247/248-byte targets; scenario links-scan has two real endpoints (links are found by scans and propagated), scenario links-mixed has a model alpha endpoint that reports link entries with any target to a real beta endpoint (so the transition-side check is reached with targets no scan would accept); oracle: every SymbolicLink entry in a real scan's snapshot and every link a real transition reports as created satisfies the harness's own POSIX-lexical rule (empty and '.' components are no-ops, never above the root, not empty/absolute/too long/colon/backslash); non-trivial and distinct as C01",
		Assumptions: append([]string{"decided through scan and transition behaviour on a simulated disk, not by calling the unexported normalisation function"}, commonAssumptions...),
		Real:        []string{"synchronization.Manager and controller", "local endpoint (scan, poll watching, staging, transition, cache)", "core.Scan / core.Transition / core.Reconcile", "rsync transmit/receive", "filesystem package on tmpfs (/dev/shm)", "staging store"},
		Stub:        []string{"simulated user (plain os calls, stamped mtimes)", "independent walker", "syscall hook (gates, errno injection)", "fake clock", "model alpha endpoint in the links-mixed scenario"},
		Probes:      []string{"probe.links_accepted_by_scan", "probe.links_created_by_transition"},
	},
	"C17": {
		Engine: "syncsim", Level: "exploration", QuickSec: 40, ThoroughSec: 900,
		Rule: "one run = a real session over two real local endpoints; besides ordinary edits the user replaces directories and files on planned paths by symbolic links to a canary directory outside both roots (whose entries mirror the in-root names) - at endpoint-method gates and, in most runs, between any two system calls of scan, stage, supply, receive and transition; oracles: before every hooked system call the directory descriptor is resolved through /proc/self/fd and must not lie in the canary; a rename must not leave a root; the canary tree (names, modes, sizes, bytes) is unchanged after every scan, supply and transition; non-trivial and distinct as C08",
		Assumptions: append([]string{"reads through a followed link are detected by resolving the descriptor of every hooked read/fstat/openat/readdir, not by inotify"}, commonAssumptions...),
		Real:        []string{"synchronization.Manager and controller", "local endpoint (scan, poll watching, staging, transition, cache)", "core.Scan / core.Transition", "rsync transmit/receive", "filesystem.Directory / Opener on tmpfs (/dev/shm)", "staging store"},
		Stub:        []string{"simulated user (plain os calls)", "canary directory outside both roots", "syscall hook (gates, path resolution through /proc/self/fd)", "fake clock"},
		Probes:      []string{"probe.user_edits", "probe.fs_ops.transition", "probe.fs_ops.scan", "probe.fs_ops.supply", "probe.disk_transitions"},
	},
}
