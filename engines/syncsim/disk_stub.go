package syncsim

import (
	"errors"
	"testing"

	"github.com/mutagen-io/mutagen/pkg/logging"
	"github.com/mutagen-io/mutagen/pkg/synchronization"
	"github.com/mutagen-io/mutagen/pkg/synchronization/core"
	urlpkg "github.com/mutagen-io/mutagen/pkg/url"

	"verif/simkit"
)

// Placeholders until the disk scenarios are built.
type diskState struct{ roots map[string]string }

func (d *diskState) walkTree(side string) *core.Entry               { return nil }
func (d *diskState) configure(c *synchronization.Configuration)      {}
func (d *diskState) userOp(op simkit.Op)                             {}
func (d *diskState) mirror()                                         {}
func (h *harness) setupDisk() error                                  { return errors.New("disk scenarios not built") }
func (h *harness) teardownDisk()                                     {}
func (h *harness) diskInvariant()                                    {}
func (h *harness) connectDisk(logger *logging.Logger, url *urlpkg.URL, session string, version synchronization.Version, configuration *synchronization.Configuration, alpha bool) (synchronization.Endpoint, error) {
	return nil, errors.New("disk scenarios not built")
}
func componentScenarios(property string) []string                   { return nil }
func genComponent(p *simkit.Plan, r *simkit.Rand, tier string)        {}
func execComponent(t *testing.T, plan *simkit.Plan) *simkit.Result    { return nil }
