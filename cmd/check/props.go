package main

// propSpec describes how one claimed property is checked.
type propSpec struct {
	Engine      string
	Level       string
	QuickSec    float64 // per-worker exploration budget, quick tier
	ThoroughSec float64
	Rule        string
	Assumptions []string
	Real        []string
	Stub        []string
	Probes      []string // probe counters that should be non-zero in a healthy run
	Text        string   // level_claimed.text override
	Technique   string
}

var commonAssumptions = []string{
	"Go runtime, testing/synctest fake clock and quiescence detection are correct",
	"a clean batch of seeded runs is evidence, not proof: schedules, faults and inputs are sampled",
	"the order of goroutines woken by one scheduler step is chosen by the Go runtime (exercised, not controlled)",
}

var properties = map[string]propSpec{
	"C19": {
		Engine: "wiresim", Level: "exploration", QuickSec: 20, ThoroughSec: 600,
		Rule: "one run = one seeded (base, target, block size, max data size) tuple pushed through the real Signature/Deltify/Patch with short-reading readers whose fragment sizes come from the schedule vector; non-trivial = the delta contained at least one operation; distinct = distinct (configuration, journal) fingerprints",
		Assumptions: append([]string{"input space (strings, sizes) is sampled; only I/O fragmentation is a fault here"}, commonAssumptions...),
		Real:        []string{"rsync.Engine.Signature", "rsync.Engine.Deltify", "rsync.Engine.Patch"},
		Stub:        []string{"short-reading io.Reader / io.ReadSeeker driven by the schedule vector"},
		Probes:      []string{"probe.block_ops", "probe.data_ops", "probe.short_read"},
	},
	"C20": {
		Engine: "wiresim", Level: "fault_enumeration", QuickSec: 20, ThoroughSec: 600,
		Rule: "one run = one seeded base/target set; a fault-free pass counts the transmit calls M, then every call index 1..M is failed once and persistently (enum.positions counts the injected positions) under Engine.Deltify and under rsync.Transmit with the real on-disk receiver; non-trivial = at least one position enumerated; distinct = distinct journal fingerprints",
		Assumptions: append([]string{"failure positions are enumerated completely per generated pair; the pairs themselves are sampled"}, commonAssumptions...),
		Real:        []string{"rsync.Engine.Deltify", "rsync.Transmit", "rsync receiver (NewReceiver/DecodeToReceiver)", "filesystem.Opener"},
		Stub:        []string{"failing OperationTransmitter", "failing rsync.Encoder feeding a list decoder", "in-memory Sinker"},
		Probes:      []string{"enum.positions", "fault.transmit_error", "probe.sender_reported_error"},
	},
}
