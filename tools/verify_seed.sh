#!/bin/sh
# usage: verify_seed.sh <seed-name>
# Confirms, in a scratch worktree of /repo, what a seeded change claims:
#  (1) it builds, (2) every test of the pinned baseline still passes with it,
#  (3) its demonstration fails with it and (4) passes without it.
# Writes seeded/<name>/verify.json. The worktree is removed afterwards.
name=$1; d=/verif/seeded/$name; wt=/tmp/vseed-$name
unset GOSUMDB GOTOOLCHAIN; export GOFLAGS=-mod=mod GOPROXY=off
git -C /repo worktree remove --force $wt 2>/dev/null
git -C /repo worktree add -q --detach $wt HEAD || exit 2
cd $wt || exit 2
git apply $d/patch.diff || { echo "patch does not apply"; exit 2; }
build=ok; go build ./... >/tmp/vseed-$name.build 2>&1 || build=FAIL
# (2) baseline suite with the change, without the demonstration files
go test -mod=mod -json -vet=off -count=1 -timeout 25m ./... > /tmp/vseed-$name.json 2>/dev/null
suite=$(python3 - "$name" <<'PY'
import json,sys
base=json.load(open('/root/.vp/BASELINE.json'))['stable_pass']
res={}
for line in open('/tmp/vseed-%s.json'%sys.argv[1]):
    try: e=json.loads(line)
    except Exception: continue
    if e.get('Test') and e.get('Action') in('pass','fail','skip'):
        res[e['Package']+'::'+e['Test']]=e['Action']
bad=[t for t in base if res.get(t)!='pass']
print('ok' if not bad else 'FAIL:'+','.join(bad[:5]))
PY
)
# (3),(4) demonstration
cp -r $d/demo/. $wt/
pkgs=$(cd $d/demo && find . -name '*_test.go' | xargs -n1 dirname | sort -u)
tests=$(cd $d/demo && find . -name '*_test.go' | xargs grep -ho '^func Test[A-Za-z0-9_]*' | sed 's/func //' | paste -sd'|')
with=pass; go test -mod=mod -vet=off -count=1 -timeout 10m $DEMO_TAGS -run "^($tests)\$" $pkgs > /tmp/vseed-$name.with 2>&1 || with=fail
git apply -R $d/patch.diff
without=pass; go test -mod=mod -vet=off -count=1 -timeout 10m $DEMO_TAGS -run "^($tests)\$" $pkgs > /tmp/vseed-$name.without 2>&1 || without=fail
printf '{"build":"%s","baseline_suite_with_change":"%s","demo_with_change":"%s","demo_without_change":"%s","demo_tests":"%s"}\n' "$build" "$suite" "$with" "$without" "$tests" > $d/verify.json
cat $d/verify.json
cd /; git -C /repo worktree remove --force $wt; rm -f /tmp/vseed-$name.json /tmp/vseed-$name.build
