package syncsim

import (
	"bytes"
	"context"
	"fmt"
	"os"
	"path/filepath"
	"runtime"
	"sort"
	"strings"
	"syscall"
	"testing"
	"time"

	"google.golang.org/protobuf/proto"

	"github.com/mutagen-io/mutagen/pkg/encoding"
	"github.com/mutagen-io/mutagen/pkg/filesystem"
	"github.com/mutagen-io/mutagen/pkg/housekeeping"
	"github.com/mutagen-io/mutagen/pkg/synchronization"
	"github.com/mutagen-io/mutagen/pkg/synchronization/core"

	"verif/simkit"
)

func finalComponentScenarios(property string) []string {
	switch property {
	case "C27":
		return []string{"atomic"}
	case "C43":
		return []string{"housekeeping"}
	case "C02-readonly":
		return []string{"readonly"}
	}
	return nil
}

func genFinalComponents(p *simkit.Plan, r *simkit.Rand, tier string) {
	switch p.Scenario {
	case "atomic":
		p.Cfg["old_size"] = int64(simkit.Pick(r, []int{-1, 0, 1, 100, 5000, 70000}))
		p.Cfg["new_size"] = int64(simkit.Pick(r, []int{0, 1, 100, 5000, 70000, 300000}))
		p.Cfg["data_seed"] = int64(r.Uint64() >> 1)
		p.Cfg["prefix_seed"] = int64(r.Uint64() >> 1)
		p.Cfg["mode"] = int64(simkit.Pick(r, []int{0o600, 0o644, 0o400}))
		p.Cfg["proto"] = int64(r.Intn(2))
	case "housekeeping":
		genHousekeeping(p, r, tier)
	case "readonly":
		var id int64 = 100
		for i := r.Range(1, 8); i > 0; i-- {
			genEditOn(r, p, "init", &id, "alpha")
		}
		p.Cfg["mode"] = int64(r.Range(2, 3))
		p.Cfg["order"] = int64(r.Intn(2))
	}
}

func execFinalComponents(t *testing.T, plan *simkit.Plan) *simkit.Result {
	switch plan.Scenario {
	case "atomic":
		return execAtomic(plan)
	case "housekeeping":
		return execHousekeeping(t, plan)
	case "readonly":
		return execReadOnly(t, plan)
	}
	return nil
}

// execReadOnly decides the second half of C02's first clause on the real local
// endpoint: an alpha endpoint of a one-way session refuses Stage and
// Transition (a misbehaving controller cannot make it modify the source).
func execReadOnly(t *testing.T, plan *simkit.Plan) *simkit.Result {
	var nontrivial bool
	res := simkit.Run(t, plan, simkit.Options{MaxSteps: 1000, Horizon: time.Hour}, func(s *simkit.Sim) {
		c := newComp(s, plan)
		defer c.close()
		c.rebuild(plan)
		cfg := &synchronization.Configuration{
			SynchronizationMode: modes[plan.C("mode")%4],
			WatchMode:           synchronization.WatchMode_WatchModeNoWatch,
		}
		ep := c.endpoint("alpha", true, cfg)
		defer ep.Shutdown()
		ctx := context.Background()
		snap, err, _ := ep.Scan(ctx, nil, true)
		if err != nil {
			return
		}
		nontrivial = true
		before := c.d.walkTree("alpha")
		var victim string
		walk(snap.Content, "", func(p string, e *core.Entry) {
			if victim == "" && p != "" && !unsyncKind(e.Kind) {
				victim = p
			}
		})
		calls := []func() error{
			func() error {
				_, _, _, err := ep.Stage([]string{"newfile"}, [][]byte{digestOf(5)})
				return err
			},
			func() error {
				changes := []*core.Change{{Path: "created-by-misbehaving-controller", New: dirEntry()}}
				if victim != "" {
					changes = append(changes, &core.Change{Path: victim, Old: syncPart(lookup(snap.Content, victim))})
				}
				_, _, _, err := ep.Transition(ctx, changes)
				return err
			},
		}
		if plan.C("order") == 1 {
			calls[0], calls[1] = calls[1], calls[0]
		}
		for i, call := range calls {
			if err := call(); err == nil {
				s.Violate("C02", "alpha-endpoint-accepted-request", "readonly", "call %d (order %d): the alpha endpoint of a %v session accepted a staging or transition request", i, plan.C("order"), cfg.SynchronizationMode)
			}
			s.Count("probe.readonly_refusals", 1)
		}
		if after := c.d.walkTree("alpha"); !deepEqual(before, after) {
			s.Violate("C02", "alpha-modified", "readonly", "the source root changed from %s to %s", render(before), render(after))
		}
	})
	res.NonTrivial = nontrivial
	res.Fingerprint = simkit.Digest(res.JournalHash, fmt.Sprint(plan.Ops))
	return res
}

// ------------------------------------------------------- C27 atomic writes

type atomicFault struct {
	step   string // step before which the event happens
	kind   string // crash | crash-partial | fail
	prefix int
}

// execAtomic enumerates a crash and a failure at every step of
// WriteFileAtomic / MarshalAndSaveProtobuf for one (old, new) content pair.
func execAtomic(plan *simkit.Plan) *simkit.Result {
	res := simkit.RunPlain(plan, func(s *simkit.Sim) {
		dir, err := simkit.MkdirTemp("/dev/shm", "verif-atomic-")
		if err != nil {
			panic(err)
		}
		defer os.RemoveAll(dir)
		defer func() { filesystem.VerifAtomicStepHook = nil }()
		r := simkit.NewRand(uint64(plan.C("data_seed")), 9)
		var oldData []byte
		if n := plan.C("old_size"); n >= 0 {
			oldData = append([]byte("OLD:"), r.Bytes(int(n), 256)...)
		}
		newData := append([]byte("NEW:"), r.Bytes(int(plan.C("new_size")), 256)...)
		useProto := plan.C("proto") == 1
		var oldMsg, newMsg *core.Archive
		if useProto {
			oldMsg = &core.Archive{Content: &core.Entry{Kind: core.EntryKind_Directory, Contents: map[string]*core.Entry{"old": {Kind: core.EntryKind_File, Digest: oldData[:min(len(oldData), 20)]}}}}
			newMsg = &core.Archive{Content: &core.Entry{Kind: core.EntryKind_Directory, Contents: map[string]*core.Entry{"new": {Kind: core.EntryKind_File, Digest: newData[:20%max(len(newData), 1)+1]}}}}
			if oldData != nil {
				oldData, _ = proto.Marshal(oldMsg)
			}
			newData, _ = proto.Marshal(newMsg)
		}
		mode := os.FileMode(plan.C("mode"))
		pr := simkit.NewRand(uint64(plan.C("prefix_seed")), 13)
		var faults []atomicFault
		for _, step := range []string{"write", "close", "chmod", "rename", "done"} {
			faults = append(faults, atomicFault{step: step, kind: "crash"})
		}
		for i := 0; i < 3; i++ {
			faults = append(faults, atomicFault{step: "write", kind: "crash-partial", prefix: pr.Range(0, len(newData))})
		}
		for _, step := range []string{"create", "write", "chmod", "rename"} {
			faults = append(faults, atomicFault{step: step, kind: "fail"})
		}
		faults = append(faults, atomicFault{step: "rename", kind: "fail-target-is-directory"})
		faults = append(faults, atomicFault{step: "none", kind: "none"})
		for _, f := range faults {
			caseDir := filepath.Join(dir, fmt.Sprintf("%s-%s-%d", f.kind, f.step, f.prefix))
			os.Mkdir(caseDir, 0o700)
			target := filepath.Join(caseDir, "target")
			if oldData != nil {
				os.WriteFile(target, oldData, 0o600)
			}
			name := fmt.Sprintf("%s before %s (prefix %d)", f.kind, f.step, f.prefix)
			if f.kind == "fail-target-is-directory" {
				// The rename itself fails genuinely: the target is a non-empty
				// directory. The temporary must not be left behind.
				os.RemoveAll(target)
				os.MkdirAll(filepath.Join(target, "child"), 0o700)
				err := filesystem.WriteFileAtomic(target, newData, mode)
				s.Count("enum.atomic_cases", 1)
				s.Count("fault.step_failure", 1)
				if err == nil {
					s.Violate("C27", "failure-not-reported", "rename", "%s: WriteFileAtomic onto a non-empty directory reported success", name)
				}
				if st, serr := os.Stat(filepath.Join(target, "child")); serr != nil || !st.IsDir() {
					s.Violate("C27", "failed-write-changed-target", "rename", "%s: the directory at the target path was damaged", name)
				}
				names, _ := os.ReadDir(caseDir)
				for _, n := range names {
					// Mutagen temporaries may remain (scans ignore them).
					if n.Name() != "target" && !strings.HasPrefix(n.Name(), temporaryPrefix) {
						s.Violate("C27", "stray-file", "rename", "%s: stray file %q left next to the target", name, n.Name())
					}
				}
				continue
			}
			if f.kind == "fail" && f.step == "create" {
				// The directory disappears: creation of the temporary fails.
				os.RemoveAll(caseDir)
				oldData2 := []byte(nil)
				err := filesystem.WriteFileAtomic(target, newData, mode)
				if err == nil {
					s.Violate("C27", "failure-not-reported", "create", "%s: WriteFileAtomic succeeded although the directory does not exist", name)
				}
				_ = oldData2
				s.Count("enum.atomic_cases", 1)
				continue
			}
			crashed := false
			filesystem.VerifAtomicStepHook = func(step, tgt string, temporary *os.File) {
				if tgt != target || step != f.step {
					return
				}
				switch f.kind {
				case "crash":
					crashed = true
					s.Count("fault.crash", 1)
					runtime.Goexit()
				case "crash-partial":
					temporary.Write(newData[:f.prefix])
					crashed = true
					s.Count("fault.crash_mid_write", 1)
					runtime.Goexit()
				case "fail":
					s.Count("fault.step_failure", 1)
					switch step {
					case "write":
						// The disk is full: the temporary's descriptor now
						// refers to /dev/full, so the real Write fails.
						full, err := os.OpenFile("/dev/full", os.O_WRONLY, 0)
						if err == nil {
							syscall.Dup3(int(full.Fd()), int(temporary.Fd()), 0)
							full.Close()
						}
					case "chmod", "rename":
						os.Remove(temporary.Name())
					}
				}
			}
			var werr error
			finished := make(chan struct{})
			go func() {
				defer close(finished)
				if useProto {
					werr = encoding.MarshalAndSaveProtobuf(target, newMsg)
				} else {
					werr = filesystem.WriteFileAtomic(target, newData, mode)
				}
			}()
			<-finished
			filesystem.VerifAtomicStepHook = nil
			s.Count("enum.atomic_cases", 1)
			got, rerr := os.ReadFile(target)
			isOld := (oldData == nil && os.IsNotExist(rerr)) || (oldData != nil && rerr == nil && bytes.Equal(got, oldData))
			isNew := rerr == nil && bytes.Equal(got, newData)
			switch f.kind {
			case "crash", "crash-partial":
				if !crashed {
					s.Violate("C27", "step-not-reached", f.step, "%s: the step was never reached", name)
					continue
				}
				if !isOld && !isNew {
					s.Violate("C27", "torn-target", f.step, "%s: after the crash the target holds %d bytes that are neither the old (%d) nor the new (%d) content (read err %v)", name, len(got), len(oldData), len(newData), rerr)
				}
				if f.step == "done" && !isNew {
					s.Violate("C27", "not-durable-after-rename", f.step, "%s: crash after the rename but the target does not hold the new content", name)
				}
			case "fail":
				if werr == nil {
					s.Violate("C27", "failure-not-reported", f.step, "%s: the write reported success", name)
				}
				if !isOld {
					s.Violate("C27", "failed-write-changed-target", f.step, "%s: a failed write left the target holding %d bytes (old %d)", name, len(got), len(oldData))
				}
			case "none":
				if werr != nil || !isNew {
					s.Violate("C27", "fault-free-write-failed", "none", "fault-free write: err %v, new content present %v", werr, isNew)
				}
				if st, err := os.Stat(target); err == nil && !useProto && st.Mode().Perm() != mode {
					s.Violate("C27", "wrong-permissions", "none", "target has mode %v, requested %v", st.Mode().Perm(), mode)
				}
			}
			// No stray files other than Mutagen temporaries.
			names, _ := os.ReadDir(caseDir)
			for _, n := range names {
				if n.Name() != "target" && !strings.HasPrefix(n.Name(), temporaryPrefix) {
					s.Violate("C27", "stray-file", f.step, "%s: stray file %q left next to the target", name, n.Name())
				}
			}
			if useProto && (isNew || (isOld && oldData != nil)) {
				loaded := &core.Archive{}
				if err := encoding.LoadAndUnmarshalProtobuf(target, loaded); err != nil {
					s.Violate("C27", "unloadable", f.step, "%s: the file cannot be loaded: %v", name, err)
				}
			}
		}
		s.Logf("atomic", "old %d new %d proto %v: %d cases", len(oldData), len(newData), useProto, len(faults))
	})
	res.NonTrivial = res.Counters["enum.atomic_cases"] >= 5
	res.Fingerprint = simkit.Digest(fmt.Sprint(plan.Cfg))
	return res
}

// ------------------------------------------------------------ C43 housekeeping

func genHousekeeping(p *simkit.Plan, r *simkit.Rand, tier string) {
	day := int64(24 * 3600)
	ages := func(threshold int64) int64 {
		return simkit.Pick(r, []int64{0, day, threshold - day, threshold - 1, threshold, threshold + 1, threshold + day, 3 * threshold,
			threshold - 1800, threshold + 1800, threshold - 3599, threshold + 3599})
	}
	n := r.Range(2, 14)
	for i := 0; i < n; i++ {
		switch r.Intn(6) {
		case 4:
			// An agent installation under way: the version directory exists, the
			// executable has not been renamed into place yet.
			p.Ops = append(p.Ops, simkit.Op{Actor: "init", Kind: "install", N: []int64{int64(r.Intn(2))}, S: []string{fmt.Sprintf("v1.%d.0", i)}})
		case 5:
			// A new entry whose times cannot be queried through its name (a
			// dangling or looping symbolic link) in the caches or staging
			// directory.
			p.Ops = append(p.Ops, simkit.Op{Actor: "init", Kind: "dangling", N: []int64{int64(r.Intn(2)), int64(r.Intn(2))}, S: []string{fmt.Sprintf("odd%d", i)}})
		case 0:
			p.Ops = append(p.Ops, simkit.Op{Actor: "init", Kind: "agent", N: []int64{ages(30 * day), int64(r.Intn(3))}, S: []string{fmt.Sprintf("v0.%d.0", i)}})
		case 1:
			// Besides ordinary caches: what a save interrupted by a crash leaves
			// behind in the caches directory (the temporary of an atomic write),
			// and other unusual names.
			name := simkit.Pick(r, []string{fmt.Sprintf("sync_cache%d_alpha", i), fmt.Sprintf("sync_cache%d_beta", i),
				fmt.Sprintf(".mutagen-temporary-atomic-write%d", 1000+i), fmt.Sprintf(".hidden%d", i), fmt.Sprintf("cache with space %d", i)})
			p.Ops = append(p.Ops, simkit.Op{Actor: "init", Kind: "cache", N: []int64{ages(7 * day), int64(r.Intn(3))}, S: []string{name}})
		case 2:
			p.Ops = append(p.Ops, simkit.Op{Actor: "init", Kind: "staging", N: []int64{ages(7 * day), int64(r.Intn(3))}, S: []string{fmt.Sprintf("sync_staging%d_beta", i)}})
		case 3:
			p.Ops = append(p.Ops, simkit.Op{Actor: "init", Kind: "linkout", N: []int64{ages(7 * day), int64(r.Intn(3))}, S: []string{fmt.Sprintf("link%d", i)}})
		}
	}
	for k := r.Range(1, 4); k > 0; k-- {
		p.Ops = append(p.Ops, simkit.Op{Actor: "clock", Kind: "jump", N: []int64{simkit.Pick(r, []int64{0, 3600, day - 1, day, 6 * day, 23 * day, 40 * day})}})
		p.Ops = append(p.Ops, simkit.Op{Actor: "clock", Kind: "housekeep"})
	}
	// The local time zone of the process and the date at which the run starts:
	// thresholds are durations, so neither may matter - also when a daylight
	// saving transition lies inside the window (the simulated clock starts on
	// 2000-01-01; transitions of that year fall on days 85-92 and 302 in the
	// north, 86 and 239 in Sydney).
	p.Cfg["tz"] = int64(r.Intn(4))
	if r.Chance(1, 2) {
		p.Cfg["start_s"] = int64(r.Intn(340))*day + int64(r.Intn(int(day)))
	} else {
		p.Cfg["start_s"] = simkit.Pick(r, []int64{0, 86, 88, 93, 95, 100, 240, 243, 303, 305, 310, 330})*day + int64(r.Intn(int(day)))
	}
}

var housekeepingZones = []string{"", "America/New_York", "Europe/Berlin", "Australia/Sydney"}

func execHousekeeping(t *testing.T, plan *simkit.Plan) *simkit.Result {
	var nontrivial bool
	res := simkit.Run(t, plan, simkit.Options{MaxSteps: 1000, Horizon: 800 * 24 * time.Hour}, func(s *simkit.Sim) {
		if zone := housekeepingZones[int(plan.Cfg["tz"])%len(housekeepingZones)]; zone != "" {
			if loc, err := time.LoadLocation(zone); err == nil {
				prevLocal := time.Local
				time.Local = loc
				defer func() { time.Local = prevLocal }()
				s.Count("probe.dst_zone", 1)
			}
		}
		if start := plan.Cfg["start_s"]; start > 0 {
			time.Sleep(time.Duration(start) * time.Second)
		}
		base, err := simkit.MkdirTemp("/dev/shm", "verif-housekeeping-")
		if err != nil {
			panic(err)
		}
		defer os.RemoveAll(base)
		dataDir := filepath.Join(base, "data")
		outside := filepath.Join(base, "outside")
		os.MkdirAll(filepath.Join(outside, "dir"), 0o755)
		os.WriteFile(filepath.Join(outside, "file"), []byte("outside"), 0o644)
		os.WriteFile(filepath.Join(outside, "dir", "mutagen-agent"), []byte("outside agent"), 0o755)
		prevEnv, had := os.LookupEnv("MUTAGEN_DATA_DIRECTORY")
		os.Setenv("MUTAGEN_DATA_DIRECTORY", dataDir)
		defer func() {
			if had {
				os.Setenv("MUTAGEN_DATA_DIRECTORY", prevEnv)
			}
		}()
		type item struct {
			path      string // path whose existence is observed
			stamped   string // path whose time decides
			kind      string
			threshold time.Duration
			access    bool
			lstat     bool // the entry's own times decide (it cannot be followed)
			keep      bool // housekeeping has no business with it at any age
			stampTime time.Time
		}
		var items []*item
		now := time.Now()
		stamp := func(p string, age int64, jitter int64) time.Time {
			tm := now.Add(-time.Duration(age)*time.Second - time.Duration(jitter)*time.Nanosecond)
			os.Chtimes(p, tm, tm)
			return tm
		}
		day := 24 * time.Hour
		for _, op := range plan.Ops {
			if op.Actor != "init" {
				continue
			}
			switch op.Kind {
			case "agent":
				dir := filepath.Join(dataDir, "agents", op.Str(0))
				os.MkdirAll(dir, 0o700)
				exe := filepath.Join(dir, "mutagen-agent")
				os.WriteFile(exe, []byte("agent"), 0o700)
				tm := stamp(exe, op.Int(0), op.Int(1))
				items = append(items, &item{path: dir, stamped: exe, kind: "agent", threshold: 30 * day, access: true, stampTime: tm})
			case "cache":
				os.MkdirAll(filepath.Join(dataDir, "caches"), 0o700)
				f := filepath.Join(dataDir, "caches", op.Str(0))
				os.WriteFile(f, []byte("cache"), 0o600)
				tm := stamp(f, op.Int(0), op.Int(1))
				items = append(items, &item{path: f, stamped: f, kind: "cache", threshold: 7 * day, stampTime: tm})
			case "staging":
				dir := filepath.Join(dataDir, "staging", op.Str(0))
				os.MkdirAll(filepath.Join(dir, "ab"), 0o700)
				os.WriteFile(filepath.Join(dir, "ab", "staged"), []byte("staged"), 0o600)
				tm := stamp(dir, op.Int(0), op.Int(1))
				items = append(items, &item{path: dir, stamped: dir, kind: "staging", threshold: 7 * day, stampTime: tm})
			case "install":
				dir := filepath.Join(dataDir, "agents", op.Str(0))
				os.MkdirAll(dir, 0o700)
				if op.Int(0) == 1 {
					os.WriteFile(filepath.Join(dir, ".mutagen-temporary-agent-upload"), []byte("partial"), 0o600)
				}
				items = append(items, &item{path: dir, stamped: dir, kind: "installing-agent", threshold: 30 * day, stampTime: now, keep: true})
				s.Count("probe.installations_under_way", 1)
			case "dangling":
				parent := filepath.Join(dataDir, "caches")
				if op.Int(0) == 1 {
					parent = filepath.Join(dataDir, "staging")
				}
				os.MkdirAll(parent, 0o700)
				link := filepath.Join(parent, op.Str(0))
				if op.Int(1) == 0 {
					os.Symlink(filepath.Join(outside, "no-such-target"), link)
				} else {
					os.Symlink(op.Str(0), link) // points at itself
				}
				items = append(items, &item{path: link, stamped: link, kind: "unqueryable-entry", threshold: 7 * day, stampTime: now, lstat: true, keep: true})
				s.Count("probe.unqueryable_entries", 1)
			case "linkout":
				// Symbolic links inside the data directory pointing outside.
				var link string
				switch op.Int(1) {
				case 0:
					os.MkdirAll(filepath.Join(dataDir, "caches"), 0o700)
					link = filepath.Join(dataDir, "caches", op.Str(0))
					os.Symlink(filepath.Join(outside, "file"), link)
				case 1:
					os.MkdirAll(filepath.Join(dataDir, "staging"), 0o700)
					link = filepath.Join(dataDir, "staging", op.Str(0))
					os.Symlink(filepath.Join(outside, "dir"), link)
				default:
					os.MkdirAll(filepath.Join(dataDir, "agents"), 0o700)
					link = filepath.Join(dataDir, "agents", op.Str(0))
					os.Symlink(filepath.Join(outside, "dir"), link)
				}
				// The link's target is old: whatever happens to the link, the
				// target must survive.
				old := now.Add(-100 * day)
				os.Chtimes(filepath.Join(outside, "file"), old, old)
				os.Chtimes(filepath.Join(outside, "dir", "mutagen-agent"), old, old)
				os.Chtimes(filepath.Join(outside, "dir"), old, old)
				s.Count("probe.links_to_outside", 1)
			}
		}
		outsideHash := func() string {
			var b strings.Builder
			filepath.Walk(outside, func(p string, info os.FileInfo, err error) error {
				if err == nil {
					fmt.Fprintf(&b, "%s|%v|%d\n", p, info.Mode(), info.Size())
				}
				return nil
			})
			return b.String()
		}
		before := outsideHash()
		for _, op := range plan.Ops {
			if op.Actor != "clock" {
				continue
			}
			if op.Kind == "jump" {
				if op.Int(0) > 0 {
					time.Sleep(time.Duration(op.Int(0)) * time.Second)
				}
				s.Count("fault.clock_jump", 1)
				continue
			}
			callTime := time.Now()
			housekeeping.Housekeep()
			nontrivial = true
			for _, it := range items {
				_, err := os.Lstat(it.path)
				exists := err == nil
				// Access times may be refreshed by the kernel when read;
				// use the current stamp of what decides.
				ref := it.stampTime
				if it.lstat {
					if st, err := os.Lstat(it.stamped); err == nil {
						ref = st.ModTime()
					}
				} else if st, err := os.Stat(it.stamped); err == nil {
					if it.access {
						if sys, ok := st.Sys().(*syscall.Stat_t); ok {
							ref = time.Unix(sys.Atim.Sec, sys.Atim.Nsec)
						}
					} else {
						ref = st.ModTime()
					}
				}
				age := callTime.Sub(ref)
				if !exists && it.kind != "gone" {
					if age <= it.threshold || it.keep {
						s.Violate("C43", "recent-artifact-removed", it.kind, "%s %q was removed at age %v, the threshold is %v", it.kind, filepath.Base(it.path), callTime.Sub(it.stampTime), it.threshold)
					}
					s.Count("probe.removed_"+it.kind, 1)
					it.kind = "gone"
				} else if exists && age > it.threshold && !it.keep {
					s.Violate("C43", "stale-artifact-kept", it.kind, "%s %q is %v old (threshold %v) and was not removed", it.kind, filepath.Base(it.path), age, it.threshold)
				} else if exists {
					s.Count("probe.kept", 1)
				}
			}
			if after := outsideHash(); after != before {
				s.Violate("C43", "outside-data-directory-touched", "Housekeep", "content outside the data directory changed:\nbefore:\n%safter:\n%s", before, after)
				before = after
			}
		}
		var kinds []string
		for _, it := range items {
			kinds = append(kinds, it.kind)
		}
		sort.Strings(kinds)
		s.Logf("housekeeping", "items at end: %v", kinds)
	})
	res.NonTrivial = nontrivial
	res.Fingerprint = simkit.Digest(res.JournalHash, fmt.Sprint(plan.Ops))
	return res
}
