// Package primsim drives mutagen's concurrency primitives under a seeded
// scheduler with yield points and a fake clock: state.Tracker / TrackingLock
// (C30), state.Coalescer (C31) and the prompting registry (C32).
package primsim

import (
	"context"
	"errors"
	"fmt"
	"runtime"
	"sort"
	"strings"
	"sync"
	"sync/atomic"
	"testing"
	"time"

	"github.com/anishathalye/porcupine"

	"github.com/mutagen-io/mutagen/pkg/prompting"
	"github.com/mutagen-io/mutagen/pkg/state"
	"github.com/mutagen-io/mutagen/pkg/verif"

	"verif/simkit"
)

// Engine implements simkit.Engine.
type Engine struct{}

func (Engine) Name() string { return "primsim" }

func (Engine) Scenarios(property string) []string {
	switch property {
	case "C30":
		return []string{"tracker"}
	case "C31":
		return []string{"coalescer"}
	case "C32":
		return []string{"prompting"}
	}
	return nil
}

func (Engine) Generate(property, scenario string, seed uint64, tier string) *simkit.Plan {
	p := &simkit.Plan{Engine: "primsim", Scenario: scenario, Property: property, Seed: seed, Cfg: map[string]int64{}}
	r := simkit.NewRand(seed, 1)
	switch scenario {
	case "tracker":
		genTracker(p, r, tier)
	case "coalescer":
		genCoalescer(p, r, tier)
	case "prompting":
		genPrompting(p, r, tier)
	}
	return p
}

func (Engine) Execute(t *testing.T, plan *simkit.Plan) *simkit.Result {
	switch plan.Scenario {
	case "tracker":
		return execTracker(t, plan)
	case "coalescer":
		return execCoalescer(t, plan)
	case "prompting":
		return execPrompting(t, plan)
	}
	return &simkit.Result{Seed: plan.Seed, Trouble: "unknown scenario"}
}

// actorsOf splits a plan's operations per actor (sorted actor names).
func actorsOf(p *simkit.Plan) ([]string, map[string][]simkit.Op) {
	per := map[string][]simkit.Op{}
	var names []string
	for _, op := range p.Ops {
		if _, ok := per[op.Actor]; !ok {
			names = append(names, op.Actor)
		}
		per[op.Actor] = append(per[op.Actor], op)
	}
	sort.Strings(names)
	return names, per
}

// yielder parks actors at enabled yield sites.
type yielder struct {
	s       *simkit.Sim
	mu      sync.Mutex
	atYield map[string]bool
	prefix  string
	auto    string // package whose automatically inserted sites count ("state.", ...)
	rate    int64
	// onOther, if set, is told when a goroutine that is not an actor passes a site.
	onOther func(site string)
}

func (y *yielder) hook(site string) {
	// Sites inserted automatically at build time (before every lock, after every
	// unlock of the package: cmd/check/autoyield.go) count like the hand-placed
	// ones; they also exist in code a change has added.
	auto := strings.HasPrefix(site, "auto:")
	if auto {
		if y.auto == "" || !strings.HasPrefix(site, "auto:"+y.auto) {
			return
		}
	} else if !strings.HasPrefix(site, y.prefix) {
		return
	}
	label := y.s.ActorLabel()
	if label == "" {
		if auto && strings.Contains(site, ".track:") {
			// The tracker's own loop: parked like an actor of its own, so that
			// callers can run while it stands between two of its steps.
			y.s.Count("probe.yield.background", 1)
			y.mu.Lock()
			y.atYield["bg.track"] = true
			y.mu.Unlock()
			y.s.Gate("bg.track", "yield:"+site)
			y.mu.Lock()
			y.atYield["bg.track"] = false
			y.mu.Unlock()
			return
		}
		if f := y.onOther; f != nil {
			f(site)
		}
		return
	}
	if auto {
		site = site[:strings.LastIndexByte(site, '#')]
	}
	y.s.Count("probe.yield."+site, 1)
	y.mu.Lock()
	y.atYield[label] = true
	y.mu.Unlock()
	y.s.Gate(label, "yield:"+site)
	y.mu.Lock()
	y.atYield[label] = false
	y.mu.Unlock()
}

func (y *yielder) parked(label string) bool {
	y.mu.Lock()
	defer y.mu.Unlock()
	return y.atYield[label]
}

// ---------------------------------------------------------------- tracker

func genTracker(p *simkit.Plan, r *simkit.Rand, tier string) {
	nNot, nWait := r.Range(1, 2), r.Range(1, 3)
	p.Cfg["sched_sticky"] = int64(simkit.Pick(r, []int{0, 40, 80}))
	total := r.Range(4, 40)
	if tier == "thorough" {
		total = r.Range(4, 70)
	}
	useLock := r.Chance(1, 3)
	for i := 0; i < total; i++ {
		switch r.Weighted([]int{30, 45, 10, 3, 6}) {
		case 0:
			kind := "notify"
			if useLock && r.Chance(1, 2) {
				kind = "lockunlock"
			}
			op := simkit.Op{Actor: fmt.Sprintf("n%d", r.Intn(nNot)), Kind: kind}
			if useLock && r.Chance(1, 4) {
				// The holder releases the tracking lock while another caller is
				// already queued in Lock; that caller then releases with (1) or
				// without (0) a notification of its own.
				op.Kind, op.N = "handoff", []int64{int64(r.Intn(2))}
			}
			p.Ops = append(p.Ops, op)
		case 1:
			// wait mode: 0 zero index, 1 last index this waiter saw (current
			// or stale depending on what happened since), 2 deliberately
			// stale (last seen - 1), 3 index from the future.
			p.Ops = append(p.Ops, simkit.Op{Actor: fmt.Sprintf("w%d", r.Intn(nWait)), Kind: "wait", N: []int64{int64(r.Weighted([]int{2, 6, 2, 1}))}})
		case 2:
			p.Ops = append(p.Ops, simkit.Op{Actor: "c", Kind: "cancel", N: []int64{int64(r.Intn(nWait))}})
		case 3:
			if i > total/2 {
				p.Ops = append(p.Ops, simkit.Op{Actor: "t", Kind: "terminate"})
			}
		case 4:
			p.Ops = append(p.Ops, simkit.Op{Actor: simkit.Pick(r, []string{"c", "n0", "w0"}), Kind: "sleep", N: []int64{int64(r.Range(1, 5))}})
		}
	}
}

type trState struct {
	index uint64
	term  bool
}
type trIn struct {
	op   string
	prev uint64
}
type trOut struct {
	idx uint64
	err string
}

var trackerModel = porcupine.Model{
	Init: func() interface{} { return trState{index: 1} },
	Step: func(st, in, out interface{}) (bool, interface{}) {
		s, i, o := st.(trState), in.(trIn), out.(trOut)
		switch i.op {
		case "notify":
			if !s.term {
				s.index++
			}
			return true, s
		case "terminate":
			s.term = true
			return true, s
		case "wait":
			switch o.err {
			case "ok":
				if i.prev == 0 {
					return o.idx == s.index && !s.term, s
				}
				return o.idx == s.index && o.idx != i.prev && !s.term, s
			case "terminated":
				return s.term && o.idx == s.index, s
			case "canceled":
				return o.idx == s.index, s
			}
		}
		return false, s
	},
	Equal: func(a, b interface{}) bool { return a.(trState) == b.(trState) },
	DescribeOperation: func(in, out interface{}) string {
		return fmt.Sprintf("%v -> %v", in, out)
	},
}

func execTracker(t *testing.T, plan *simkit.Plan) *simkit.Result {
	var nontrivial bool
	res := simkit.Run(t, plan, simkit.Options{MaxSteps: 5000, Horizon: 30 * time.Second}, func(s *simkit.Sim) {
		y := &yielder{s: s, atYield: map[string]bool{}, prefix: "track", auto: "state."}
		verif.YieldHook = y.hook
		defer func() { verif.YieldHook = nil }()
		tracker := state.NewTracker()
		lock := state.NewTrackingLock(tracker)
		var mu sync.Mutex
		seq := int64(0)
		stamp := func() int64 { mu.Lock(); defer mu.Unlock(); seq++; return seq }
		var history []porcupine.Operation
		// notifyDone counts notifications completed before Terminate was
		// invoked (each certainly advanced the index); notifyStarted counts
		// those started before Terminate returned (each may have).
		notifyStarted, notifyDone := 0, 0
		termInvoked, termReturned := false, false
		tearing := false
		type waitState struct {
			prev       uint64
			ctxDone    bool
			cancel     context.CancelFunc
			lowerAtInv uint64
		}
		inflight := map[string]*waitState{}
		lastSeen := map[string]uint64{}
		names, per := actorsOf(plan)
		clients := 0
		for ci, name := range names {
			name, ci := name, ci
			ops := per[name]
			clients++
			s.Go(name, func() {
				defer func() { mu.Lock(); clients--; mu.Unlock() }()
				for _, op := range ops {
					if s.PassThrough() {
						return
					}
					s.Gate(name, op.Kind)
					switch op.Kind {
					case "notify", "lockunlock":
						call := stamp()
						mu.Lock()
						if !termReturned {
							notifyStarted++
						}
						mu.Unlock()
						if op.Kind == "notify" {
							tracker.NotifyOfChange()
						} else {
							lock.Lock()
							lock.Unlock()
						}
						mu.Lock()
						if !termInvoked {
							notifyDone++
						}
						mu.Unlock()
						appendOp(&mu, &history, porcupine.Operation{ClientId: ci, Input: trIn{op: "notify"}, Call: call, Output: trOut{}, Return: stamp()})
						s.Logf(name, "%s", op.Kind)
					case "handoff":
						// A state change made under the tracking lock, released
						// while a second caller is queued inside Lock. The whole
						// hand-over happens inside this one step (a goroutine
						// waiting for a sync.Mutex is invisible to synctest, so
						// it must not outlive the step).
						lock.Lock()
						var entered atomic.Bool
						y.onOther = func(site string) {
							if site == "trackinglock.lock" {
								entered.Store(true)
							}
						}
						quiet := op.Int(0) == 0
						second := make(chan [2]int64, 1)
						go func() {
							lock.Lock()
							c2 := stamp()
							if quiet {
								lock.UnlockWithoutNotify()
							} else {
								mu.Lock()
								if !termReturned {
									notifyStarted++
								}
								mu.Unlock()
								lock.Unlock()
								mu.Lock()
								if !termInvoked {
									notifyDone++
								}
								mu.Unlock()
							}
							second <- [2]int64{c2, stamp()}
						}()
						for i := 0; i < 200 && !entered.Load(); i++ {
							runtime.Gosched()
						}
						for i := 0; i < 20; i++ {
							runtime.Gosched() // let it reach the mutex and park there
						}
						y.onOther = nil
						call := stamp()
						mu.Lock()
						if !termReturned {
							notifyStarted++
						}
						mu.Unlock()
						lock.Unlock()
						mu.Lock()
						if !termInvoked {
							notifyDone++
						}
						mu.Unlock()
						appendOp(&mu, &history, porcupine.Operation{ClientId: ci, Input: trIn{op: "notify"}, Call: call, Output: trOut{}, Return: stamp()})
						st2 := <-second
						if !quiet {
							appendOp(&mu, &history, porcupine.Operation{ClientId: ci + 100, Input: trIn{op: "notify"}, Call: st2[0], Output: trOut{}, Return: st2[1]})
						}
						s.Count("probe.contended_handoff", 1)
						s.Logf(name, "handoff quiet=%v", quiet)
					case "terminate":
						call := stamp()
						mu.Lock()
						termInvoked = true
						mu.Unlock()
						tracker.Terminate()
						mu.Lock()
						termReturned = true
						mu.Unlock()
						appendOp(&mu, &history, porcupine.Operation{ClientId: ci, Input: trIn{op: "terminate"}, Call: call, Output: trOut{}, Return: stamp()})
						s.Logf(name, "terminate")
					case "cancel":
						w := fmt.Sprintf("w%d", op.Int(0))
						mu.Lock()
						ws := inflight[w]
						if ws != nil {
							ws.ctxDone = true
						}
						mu.Unlock()
						if ws != nil {
							ws.cancel()
							s.Logf(name, "cancel %s", w)
							s.Count("probe.cancel_inflight", 1)
						}
					case "sleep":
						time.Sleep(time.Duration(op.Int(0))*time.Millisecond + 13*time.Microsecond)
					case "wait":
						mu.Lock()
						prev := lastSeen[name]
						switch op.Int(0) {
						case 0:
							prev = 0
						case 2:
							if prev > 1 {
								prev--
							}
						case 3:
							prev += 5
						}
						if prev == 0 && op.Int(0) != 0 {
							prev = 1
						}
						lower := uint64(1 + notifyDone)
						ctx, cancel := context.WithCancel(context.Background())
						ws := &waitState{prev: prev, cancel: cancel, lowerAtInv: lower}
						inflight[name] = ws
						mu.Unlock()
						call := stamp()
						idx, err := tracker.WaitForChange(ctx, prev)
						ret := stamp()
						cancel()
						mu.Lock()
						delete(inflight, name)
						upper := uint64(1 + notifyStarted)
						termInv := termInvoked
						if tearing {
							// Released by the harness's own teardown.
							mu.Unlock()
							return
						}
						last := lastSeen[name]
						if idx > last {
							lastSeen[name] = idx
						}
						mu.Unlock()
						ek := "ok"
						switch {
						case errors.Is(err, state.ErrTrackingTerminated):
							ek = "terminated"
						case errors.Is(err, context.Canceled):
							ek = "canceled"
						case err != nil:
							ek = "other:" + err.Error()
						}
						s.Logf(name, "wait prev=%d -> %d %s", prev, idx, ek)
						appendOp(&mu, &history, porcupine.Operation{ClientId: ci, Input: trIn{op: "wait", prev: prev}, Call: call, Output: trOut{idx, ek}, Return: ret})
						if idx < lower {
							s.Violate("C30", "index-backwards", "WaitForChange", "%s: WaitForChange(prev=%d) returned index %d, but %d notifications had completed before the call (index at least %d)", name, prev, idx, lower-1, lower)
						}
						if idx < last {
							s.Violate("C30", "index-backwards", "WaitForChange", "%s: returned index %d after having seen %d", name, idx, last)
						}
						if idx > upper {
							s.Violate("C30", "index-from-future", "WaitForChange", "%s: returned index %d but only %d notifications were ever started", name, idx, upper-1)
						}
						if ek == "ok" && prev != 0 && idx == prev {
							s.Violate("C30", "returned-without-change", "WaitForChange", "%s: WaitForChange(prev=%d) returned the same index without error", name, prev)
						}
						if ek == "terminated" && !termInv {
							s.Violate("C30", "spurious-termination", "WaitForChange", "%s: ErrTrackingTerminated although Terminate was never called", name)
						}
						if ek == "canceled" && !ws.ctxDone {
							s.Violate("C30", "spurious-cancel", "WaitForChange", "%s: context.Canceled although the context was not cancelled", name)
						}
						if strings.HasPrefix(ek, "other") {
							s.Violate("C30", "unexpected-error", "WaitForChange", "%s: %s", name, ek)
						}
					}
				}
			})
		}
		// Liveness at quiescent points: a waiter whose index is already stale,
		// whose context is cancelled, or whose tracker is terminated must not
		// still be blocked (unless the simulator itself parked it).
		s.Invariant = func() {
			mu.Lock()
			defer mu.Unlock()
			cur := uint64(1 + notifyDone)
			if y.parked("bg.track") {
				// The tracker's loop stands between two of its steps (parked by
				// the simulator): what it has not delivered yet is not overdue.
				return
			}
			for name, ws := range inflight {
				if y.parked(name) {
					continue
				}
				switch {
				case ws.prev == 0:
					s.Violate("C30", "blocked-immediate-read", "WaitForChange", "%s: WaitForChange(0) blocked", name)
				case ws.prev < cur || ws.prev > uint64(1+notifyStarted):
					s.Violate("C30", "missed-update", "WaitForChange", "%s: still blocked in WaitForChange(prev=%d) at a quiescent point although the index is at least %d (%d notifications completed)", name, ws.prev, cur, notifyDone)
				case ws.ctxDone:
					s.Violate("C30", "blocked-after-cancel", "WaitForChange", "%s: still blocked after its context was cancelled", name)
				case termReturned:
					s.Violate("C30", "blocked-after-terminate", "WaitForChange", "%s: still blocked after Terminate returned", name)
				}
			}
		}
		s.Loop(func() bool {
			mu.Lock()
			defer mu.Unlock()
			if clients == 0 {
				return true
			}
			// Only waiters legitimately blocked in WaitForChange remain.
			if clients != len(inflight) {
				return false
			}
			for name := range inflight {
				if y.parked(name) {
					return false
				}
			}
			return true
		})
		// Waiters legitimately blocked at the end: release them by terminating.
		mu.Lock()
		tearing = true
		mu.Unlock()
		s.Finish()
		tracker.Terminate()
		s.WaitActors(time.Second)
		mu.Lock()
		h := append([]porcupine.Operation(nil), history...)
		nontrivial = len(h) >= 4 && notifyDone > 0
		mu.Unlock()
		switch porcupine.CheckOperationsTimeout(trackerModel, h, 3*time.Second) {
		case porcupine.Illegal:
			var b strings.Builder
			for _, o := range h {
				fmt.Fprintf(&b, "[%d,%d] c%d %v -> %v; ", o.Call, o.Return, o.ClientId, o.Input, o.Output)
			}
			s.Violate("C30", "not-linearizable", "history", "the invoke/return history admits no linearization against the (index, terminated) model: %s", b.String())
		case porcupine.Unknown:
			s.Count("probe.porcupine_inconclusive", 1)
		default:
			s.Count("probe.porcupine_checked", 1)
		}
	})
	res.NonTrivial = nontrivial
	res.Fingerprint = res.JournalHash
	return res
}

// appendOp appends under the lock. The slice must be read and written inside the
// critical section: two actors made runnable by one scheduler step (a notifier and
// the waiter it woke) record their operations concurrently, and a read outside the
// lock lost one of the two entries (seen once as an unreproducible
// "not-linearizable" report on the unchanged tree).
func appendOp(mu *sync.Mutex, h *[]porcupine.Operation, op porcupine.Operation) {
	mu.Lock()
	defer mu.Unlock()
	*h = append(*h, op)
}

// -------------------------------------------------------------- coalescer

func genCoalescer(p *simkit.Plan, r *simkit.Rand, tier string) {
	window := simkit.Pick(r, []int{0, 1, 5, 10, 50})
	p.Cfg["window_ms"] = int64(window)
	n := r.Range(2, 30)
	if tier == "thorough" {
		n = r.Range(2, 80)
	}
	w := max(window, 1)
	for i := 0; i < n; i++ {
		switch r.Weighted([]int{50, 30, 3}) {
		case 0:
			// Strobe after a gap relative to the window, never exactly equal
			// to it (odd microsecond offsets avoid timer ties, which the
			// runtime - not the seed - would order).
			gapUs := simkit.Pick(r, []int{w*1000 - 137, w*1000 + 139, w * 500, w*3000 + 11, 7, w * 10000})
			p.Ops = append(p.Ops, simkit.Op{Actor: "strobe", Kind: "strobe", N: []int64{int64(max(gapUs, 3))}})
		case 1:
			gapUs := simkit.Pick(r, []int{w*300 + 1, w*1000 + 391, w*2500 + 5, 9, w*20000 + 3})
			p.Ops = append(p.Ops, simkit.Op{Actor: "consume", Kind: "recv", N: []int64{int64(gapUs)}})
		case 2:
			if i > n/2 {
				p.Ops = append(p.Ops, simkit.Op{Actor: "term", Kind: "terminate", N: []int64{int64(r.Range(1, w*4000+500)*2 + 1)}})
			}
		}
	}
}

func execCoalescer(t *testing.T, plan *simkit.Plan) *simkit.Result {
	var nontrivial bool
	res := simkit.Run(t, plan, simkit.Options{MaxSteps: 5000, Horizon: 10 * time.Minute}, func(s *simkit.Sim) {
		window := time.Duration(plan.C("window_ms")) * time.Millisecond
		c := state.NewCoalescer(window)
		var mu sync.Mutex
		var strobes []time.Duration
		var strobeBeforeTerm []bool
		var strobeSeq []int
		evSeq := 0
		type recv struct {
			start, end time.Duration
			seq        int
		}
		recvSeq := 0
		var recvs []recv
		recvBlocked := false
		var recvStart time.Duration
		termAt := time.Duration(-1)
		termReturned := time.Duration(-1)
		names, per := actorsOf(plan)
		running := 0
		stopRecv := make(chan struct{})
		for _, name := range names {
			name := name
			ops := per[name]
			running++
			s.Go(name, func() {
				defer func() { mu.Lock(); running--; mu.Unlock() }()
				for _, op := range ops {
					if s.PassThrough() {
						return
					}
					time.Sleep(time.Duration(op.Int(0)) * time.Microsecond)
					s.Gate(name, op.Kind)
					switch op.Kind {
					case "strobe":
						before := s.Now()
						mu.Lock()
						termSeen := termAt >= 0
						mu.Unlock()
						_ = termSeen
						c.Strobe()
						after := s.Now()
						mu.Lock()
						strobes = append(strobes, after)
						strobeBeforeTerm = append(strobeBeforeTerm, termAt < 0)
						evSeq++
						strobeSeq = append(strobeSeq, evSeq)
						mu.Unlock()
						s.Logf(name, "strobe at %v", after)
						if after != before {
							s.Violate("C31", "strobe-blocked", "Strobe", "Strobe took %v of simulated time", after-before)
						}
					case "recv":
						mu.Lock()
						recvBlocked, recvStart = true, s.Now()
						evSeq++
						recvSeq = evSeq
						mu.Unlock()
						select {
						case <-c.Signals():
							mu.Lock()
							recvs = append(recvs, recv{recvStart, s.Now(), recvSeq})
							recvBlocked = false
							mu.Unlock()
							s.Logf(name, "signal received at %v (waiting since %v)", s.Now(), recvStart)
						case <-stopRecv:
							return
						}
					case "terminate":
						mu.Lock()
						if termAt < 0 {
							termAt = s.Now()
						}
						mu.Unlock()
						c.Terminate()
						mu.Lock()
						termReturned = s.Now()
						mu.Unlock()
						s.Logf(name, "terminated at %v", s.Now())
					}
				}
			})
		}
		s.Loop(func() bool {
			mu.Lock()
			defer mu.Unlock()
			return running == 0 || (running == 1 && recvBlocked && s.Now() > lastOf(strobes)+window+time.Second)
		})
		// Let the last window elapse, then collect a possibly buffered signal.
		s.Finish()
		time.Sleep(window + time.Second)
		buffered := 0
		select {
		case <-c.Signals():
			buffered = 1
		default:
		}
		close(stopRecv)
		c.Terminate()
		s.WaitActors(time.Second)

		// Reference model: timer fires at strobe+window when no later strobe
		// falls inside the window and the coalescer was not terminated first;
		// a fire fills the one-slot buffer (or is dropped when full); a
		// receive takes the buffered signal or waits for the next fire.
		mu.Lock()
		defer mu.Unlock()
		var fires []time.Duration
		var fireOrd []float64
		for i, st := range strobes {
			if !strobeBeforeTerm[i] {
				// Strobes after termination began promise nothing.
				continue
			}
			f := st + window
			// A later strobe inside the window restarts it; a timer expiring
			// at the very instant of a later strobe or of the termination has
			// already fired, because actors only act at quiescent points.
			if i+1 < len(strobes) && strobeBeforeTerm[i+1] && strobes[i+1] < f {
				continue
			}
			if termAt >= 0 && f > termAt {
				continue
			}
			fires = append(fires, f)
			// Order among events at the same instant: a timer with a
			// positive window expires while time advances, i.e. before any
			// actor acts at that instant; a zero window fires right after
			// its own strobe.
			if window > 0 {
				fireOrd = append(fireOrd, -1)
			} else {
				fireOrd = append(fireOrd, float64(strobeSeq[i])+0.5)
			}
		}
		type ev struct {
			at   time.Duration
			ord  float64
			kind int // 0 fire, 1 recv start
			idx  int
		}
		var evs []ev
		for i, f := range fires {
			evs = append(evs, ev{f, fireOrd[i], 0, i})
		}
		for i, r := range recvs {
			evs = append(evs, ev{r.start, float64(r.seq), 1, i})
		}
		pendingStart := time.Duration(-1)
		if recvBlocked {
			evs = append(evs, ev{recvStart, float64(recvSeq), 1, len(recvs)})
			pendingStart = recvStart
		}
		sort.Slice(evs, func(i, j int) bool {
			if evs[i].at != evs[j].at {
				return evs[i].at < evs[j].at
			}
			return evs[i].ord < evs[j].ord
		})
		full := false
		waiting := -1
		expectedEnd := map[int]time.Duration{}
		for _, e := range evs {
			if e.kind == 0 {
				if waiting >= 0 {
					expectedEnd[waiting] = e.at
					waiting = -1
				} else {
					if full {
						s.Count("probe.signal_dropped_buffer_full", 1)
					}
					full = true
				}
			} else {
				if full {
					expectedEnd[e.idx] = e.at
					full = false
				} else {
					waiting = e.idx
				}
			}
		}
		for i, r := range recvs {
			want, ok := expectedEnd[i]
			if !ok {
				s.Violate("C31", "spurious-signal", "Signals", "receive %d (waiting since %v) got a signal at %v but the model predicts none: strobes %v window %v terminate %v", i, r.start, r.end, strobes, window, termAt)
			} else if want != r.end {
				s.Violate("C31", "signal-time", "Signals", "receive %d (waiting since %v) got its signal at %v, the model predicts %v: strobes %v window %v", i, r.start, r.end, want, strobes, window)
			}
		}
		if recvBlocked {
			if want, ok := expectedEnd[len(recvs)]; ok {
				s.Violate("C31", "signal-lost", "Signals", "a receive waiting since %v never got the signal the model predicts at %v: strobes %v window %v terminate %v", pendingStart, want, strobes, window, termAt)
			}
		}
		wantBuffered := 0
		if full {
			wantBuffered = 1
		}
		if buffered != wantBuffered {
			s.Violate("C31", "buffered-signal", "Signals", "at rest %d signal(s) buffered, the model predicts %d: strobes %v fires %v receives %v window %v terminate %v", buffered, wantBuffered, strobes, fires, recvs, window, termAt)
		}
		if len(fires) > 0 {
			s.Count("probe.bursts", int64(len(fires)))
		}
		if len(strobes) > len(fires) {
			s.Count("probe.coalesced_strobes", int64(len(strobes)-len(fires)))
		}
		_ = termReturned
		nontrivial = len(strobes) >= 2 && len(fires) >= 1
	})
	res.NonTrivial = nontrivial
	res.Fingerprint = res.JournalHash
	return res
}

func lastOf(xs []time.Duration) time.Duration {
	if len(xs) == 0 {
		return 0
	}
	return xs[len(xs)-1]
}

// -------------------------------------------------------------- prompting

var echoSuffixes = []string{"(yes/no)? ", "(yes/no): ", "(yes/no/[fingerprint])? ", "Please type 'yes', 'no' or the fingerprint: "}

func genPrompting(p *simkit.Plan, r *simkit.Rand, tier string) {
	n := r.Range(3, 25)
	callers := r.Range(1, 4)
	p.Cfg["sched_sticky"] = int64(simkit.Pick(r, []int{0, 50}))
	prompts := func() string {
		base := simkit.Pick(r, []string{"Password: ", "Are you sure you want to continue connecting ", "Enter passphrase for key: ", "", "x"})
		switch r.Intn(6) {
		case 0, 1:
			return base + simkit.Pick(r, echoSuffixes)
		case 2:
			// Near misses.
			suf := simkit.Pick(r, echoSuffixes)
			switch r.Intn(4) {
			case 0:
				return base + strings.TrimRight(suf, " ")
			case 1:
				return base + strings.ToUpper(suf)
			case 2:
				return base + suf + "x"
			default:
				return suf[1:] + base
			}
		default:
			return base
		}
	}
	unregAt := r.Range(n/2, n)
	for i := 0; i < n; i++ {
		a := fmt.Sprintf("c%d", r.Intn(callers))
		// Some invocations fail inside the prompter (its client went away).
		failing := ""
		if r.Chance(1, 5) {
			failing = failMark
		}
		if r.Chance(1, 2) {
			p.Ops = append(p.Ops, simkit.Op{Actor: a, Kind: "message", S: []string{"m" + failing}})
		} else {
			p.Ops = append(p.Ops, simkit.Op{Actor: a, Kind: "prompt", S: []string{prompts() + failing}})
		}
		if i == unregAt {
			p.Ops = append(p.Ops, simkit.Op{Actor: "u", Kind: "unregister"})
		}
	}
	// A stalled client: in half of the runs one invocation stays inside the
	// prompter for a long simulated time while other callers queue up or the
	// prompter is unregistered (-1 = none).
	p.Cfg["slow_at"] = -1
	if r.Chance(1, 2) {
		p.Cfg["slow_at"] = int64(r.Intn(n))
	}
	p.Cfg["slow_ms"] = int64(simkit.Pick(r, []int{1500, 7000, 12000, 31000}))
}

type simPrompter struct {
	s        *simkit.Sim
	mu       sync.Mutex
	active   int
	invoked  int
	unregRet bool
	slowAt   int           // index of the invocation that stalls (-1 none)
	slow     time.Duration // for how long (simulated)
}

func (p *simPrompter) enter(kind string) {
	p.mu.Lock()
	p.active++
	idx := p.invoked
	p.invoked++
	if p.active > 1 {
		p.s.Violate("C32", "concurrent-invocation", kind, "prompter invoked while another invocation is in progress (%d active)", p.active)
	}
	if p.unregRet {
		p.s.Violate("C32", "invoked-after-unregister", kind, "prompter invoked after UnregisterPrompter returned")
	}
	p.mu.Unlock()
	// Stay inside the prompter until the scheduler says otherwise.
	p.s.Gate("", "prompter:"+kind)
	if idx == p.slowAt && p.slow > 0 {
		p.s.Count("fault.prompter_stalled", 1)
		time.Sleep(p.slow)
	}
	p.mu.Lock()
	if p.unregRet {
		p.s.Violate("C32", "unregister-returned-during-invocation", kind, "UnregisterPrompter returned while the prompter was still being invoked")
	}
	p.active--
	p.mu.Unlock()
}

// failMark at the end of a message makes the simulated prompter fail that call.
const failMark = " [the prompter fails]"

var errPrompterFailed = errors.New("simulated prompter failure")

func (p *simPrompter) Message(m string) error {
	p.enter("Message")
	if strings.HasSuffix(m, failMark) {
		p.s.Count("fault.prompter_failed", 1)
		return errPrompterFailed
	}
	return nil
}
func (p *simPrompter) Prompt(m string) (string, error) {
	p.enter("Prompt")
	if strings.HasSuffix(m, failMark) {
		p.s.Count("fault.prompter_failed", 1)
		return "", errPrompterFailed
	}
	return "response", nil
}

func execPrompting(t *testing.T, plan *simkit.Plan) *simkit.Result {
	var nontrivial bool
	res := simkit.Run(t, plan, simkit.Options{MaxSteps: 5000, Horizon: 3 * time.Minute}, func(s *simkit.Sim) {
		y := &yielder{s: s, atYield: map[string]bool{}, prefix: "prompting.", auto: "prompting."}
		verif.YieldHook = y.hook
		defer func() { verif.YieldHook = nil }()
		pr := &simPrompter{s: s, slowAt: -1}
		if v, ok := plan.Cfg["slow_at"]; ok {
			pr.slowAt, pr.slow = int(v), time.Duration(plan.Cfg["slow_ms"])*time.Millisecond
		}
		id := fmt.Sprintf("pmpt_verif_%d", plan.Seed)
		if err := prompting.RegisterPrompterWithIdentifier(id, pr); err != nil {
			panic(err)
		}
		unregistered := false
		var mu sync.Mutex
		names, per := actorsOf(plan)
		running := 0
		afterUnregErrors := 0
		for _, name := range names {
			name := name
			ops := per[name]
			running++
			s.Go(name, func() {
				defer func() { mu.Lock(); running--; mu.Unlock() }()
				for _, op := range ops {
					s.Gate(name, op.Kind)
					switch op.Kind {
					case "message", "prompt":
						pr.mu.Lock()
						after := pr.unregRet
						pr.mu.Unlock()
						var err error
						if op.Kind == "message" {
							err = prompting.Message(id, op.Str(0))
						} else {
							var resp string
							resp, err = prompting.Prompt(id, op.Str(0))
							if err == nil && resp != "response" {
								s.Violate("C32", "wrong-response", "Prompt", "Prompt returned %q", resp)
							}
							// Response mode clause (pure function riding along).
							text := strings.TrimSuffix(op.Str(0), failMark)
							mode := prompting.VerifDetermineResponseMode(text)
							wantEcho := false
							for _, suf := range echoSuffixes {
								if strings.HasSuffix(text, suf) {
									wantEcho = true
								}
							}
							if (mode == prompting.ResponseModeEcho) != wantEcho {
								s.Violate("C32", "response-mode", "determineResponseMode", "prompt %q: mode %v, echo expected %v", text, mode, wantEcho)
							}
							if wantEcho {
								s.Count("probe.echo_prompt", 1)
							} else {
								s.Count("probe.secret_prompt", 1)
							}
						}
						s.Logf(name, "%s -> err=%v", op.Kind, err != nil)
						if after && err == nil {
							s.Violate("C32", "success-after-unregister", op.Kind, "%s succeeded although UnregisterPrompter had returned before the call", op.Kind)
						}
						if after && err != nil {
							mu.Lock()
							afterUnregErrors++
							mu.Unlock()
							s.Count("probe.error_after_unregister", 1)
						}
					case "unregister":
						mu.Lock()
						if unregistered {
							mu.Unlock()
							continue
						}
						unregistered = true
						mu.Unlock()
						prompting.UnregisterPrompter(id)
						pr.mu.Lock()
						if pr.active > 0 {
							s.Violate("C32", "unregister-returned-during-invocation", "UnregisterPrompter", "UnregisterPrompter returned while %d invocation(s) were in progress", pr.active)
						}
						pr.unregRet = true
						pr.mu.Unlock()
						s.Logf(name, "unregistered")
					}
				}
			})
		}
		s.Loop(func() bool { mu.Lock(); defer mu.Unlock(); return running == 0 })
		s.Finish()
		s.WaitActors(time.Second)
		mu.Lock()
		if !unregistered {
			prompting.UnregisterPrompter(id)
			pr.mu.Lock()
			pr.unregRet = true
			pr.mu.Unlock()
		}
		mu.Unlock()
		// Every caller has returned and the prompter is unregistered: an
		// invocation that is still inside the prompter now (it can only belong
		// to a goroutine the registry started itself) is let run to its end,
		// where it is reported.
		for i := 0; i < 60; i++ {
			pr.mu.Lock()
			active := pr.active
			pr.mu.Unlock()
			if active == 0 {
				break
			}
			time.Sleep(time.Second)
		}
		nontrivial = pr.invoked >= 2
	})
	res.NonTrivial = nontrivial
	res.Fingerprint = res.JournalHash
	return res
}
