package wiresim

import (
	"bufio"
	"bytes"
	"encoding/binary"
	"fmt"
	"io"
	"runtime"
	"sync"
	"testing"
	"time"

	"github.com/mutagen-io/mutagen/pkg/encoding"
	streampkg "github.com/mutagen-io/mutagen/pkg/stream"
	"github.com/mutagen-io/mutagen/pkg/synchronization/compression"
	"github.com/mutagen-io/mutagen/pkg/synchronization/rsync"

	"verif/simkit"
)

// genFraming draws a message sequence with flush points.
func genFraming(p *simkit.Plan, r *simkit.Rand, tier string) {
	c := p.Cfg
	c["algorithm"] = int64(simkit.Pick(r, []int{1, 2})) // none, deflate
	c["frag"] = int64(simkit.Pick(r, []int{1, 2, 7, 64, 1000, 0}))
	c["short"] = int64(simkit.Pick(r, []int{0, 1, 5}))
	c["delay_us"] = int64(simkit.Pick(r, []int{0, 0, 50}))
	c["data_seed"] = int64(r.Uint64() >> 1)
	n := r.Range(1, 20)
	big := 70000
	if tier == "thorough" {
		n = r.Range(1, 60)
		big = 2000000
	}
	total := 0
	for i := 0; i < n; i++ {
		size := r.SmallBiased(300)
		if r.Chance(1, 15) {
			size = r.Range(60000, big) // beyond the 64 KiB buffers
		}
		if r.Chance(1, 30) && (c["frag"] == 0 || c["frag"] >= 1000) {
			// Around the size beyond which the encoder stops keeping its
			// buffer (1 MiB), followed by further messages.
			size = (1 << 20) + r.Range(-3, 5000)
		}
		// The link delivers at most "frag" bytes a step: keep the whole plan
		// (not just each message) well inside the step budget.
		if c["frag"] > 0 && total+size > int(c["frag"])*3000 {
			size = max(0, int(c["frag"])*3000-total)
		}
		total += size
		p.Ops = append(p.Ops, simkit.Op{Actor: "writer", Kind: "msg", N: []int64{int64(size)}})
		if r.Chance(1, 2) {
			p.Ops = append(p.Ops, simkit.Op{Actor: "writer", Kind: "flush"})
		}
	}
	p.Ops = append(p.Ops, simkit.Op{Actor: "writer", Kind: "flush"})
}

const (
	compressedBufferSize   = 64 * 1024
	uncompressedBufferSize = 64 * 1024
)

func msgPayload(seed uint64, i, size int) []byte {
	r := simkit.NewRand(seed, uint64(1000+i))
	alpha := 256
	if i%2 == 0 {
		alpha = 3 // compressible
	}
	return r.Bytes(size, alpha)
}

// execFraming decides C22: messages written through the length-prefixed
// encoder and a compression algorithm, assembled exactly as the remote endpoint
// client/server do, are decoded as the same sequence however the link
// fragments them; everything written before a Flush is decodable once the link
// has delivered it.
func execFraming(t *testing.T, plan *simkit.Plan) *simkit.Result {
	var nontrivial bool
	res := simkit.Run(t, plan, simkit.Options{MaxSteps: 60000, Horizon: 10 * time.Minute}, func(s *simkit.Sim) {
		c := plan.Cfg
		alg := compression.Algorithm(c["algorithm"])
		link := s.NewLink("ctl", simkit.LinkOpts{FragMax: int(c["frag"]), ShortMax: int(c["short"]), Delay: time.Duration(c["delay_us"]) * time.Microsecond})
		// Outbound side (as in remote.NewEndpoint / ServeEndpoint).
		compressedOutbound := bufio.NewWriterSize(link.A, compressedBufferSize)
		compressor := alg.Compress(compressedOutbound)
		outbound := bufio.NewWriterSize(compressor, uncompressedBufferSize)
		flusher := streampkg.NewMultiFlusher(outbound, compressor, compressedOutbound)
		encoder := encoding.NewProtobufEncoder(outbound)
		// Inbound side.
		compressedInbound := bufio.NewReaderSize(link.B, compressedBufferSize)
		decompressor := alg.Decompress(compressedInbound)
		inbound := bufio.NewReaderSize(decompressor, uncompressedBufferSize)
		decoder := encoding.NewProtobufDecoder(inbound)

		var mu sync.Mutex
		var written [][]byte
		flushedCount := 0
		var decoded [][]byte
		var decodeErr error
		writerDone := false
		seed := uint64(c["data_seed"])
		s.Go("reader", func() {
			for {
				m := &rsync.Transmission{}
				if err := decoder.Decode(m); err != nil {
					mu.Lock()
					decodeErr = err
					mu.Unlock()
					return
				}
				var data []byte
				if m.Operation != nil {
					data = m.Operation.Data
				}
				mu.Lock()
				decoded = append(decoded, append([]byte(nil), data...))
				n := len(decoded)
				mu.Unlock()
				s.Logf("reader", "decoded message %d (%d bytes)", n, len(data))
			}
		})
		s.Go("writer", func() {
			for i, op := range plan.Ops {
				if s.PassThrough() {
					break
				}
				s.Gate("writer", op.Kind)
				switch op.Kind {
				case "msg":
					data := msgPayload(seed, i, int(op.Int(0)))
					m := &rsync.Transmission{ExpectedSize: uint64(i), Operation: &rsync.Operation{Data: data}}
					if err := encoder.Encode(m); err != nil {
						s.Violate("C22", "encode-error", "Encode", "Encode of a %d-byte message failed: %v", len(data), err)
						return
					}
					mu.Lock()
					written = append(written, data)
					mu.Unlock()
					s.Logf("writer", "encoded message %d (%d bytes)", len(written), len(data))
				case "flush":
					if err := flusher.Flush(); err != nil {
						s.Violate("C22", "flush-error", "Flush", "Flush failed: %v", err)
						return
					}
					mu.Lock()
					flushedCount = len(written)
					mu.Unlock()
					s.Logf("writer", "flushed (%d messages so far)", flushedCount)
					s.Count("probe.flushes", 1)
				}
			}
			mu.Lock()
			writerDone = true
			mu.Unlock()
		})
		// At every quiescent point with an idle link, everything flushed so
		// far must have been decoded (the reader may not wait for bytes of a
		// later message).
		s.Invariant = func() {
			if !link.Idle() {
				return
			}
			mu.Lock()
			defer mu.Unlock()
			if len(decoded) < flushedCount && decodeErr == nil {
				s.Violate("C22", "flushed-not-decodable", "Flush", "%d messages were written before the last Flush and the link is idle, but only %d could be decoded", flushedCount, len(decoded))
			}
		}
		stop := s.Loop(func() bool {
			mu.Lock()
			defer mu.Unlock()
			return writerDone && (len(decoded) >= len(written) || decodeErr != nil) && link.Idle()
		})
		// A run whose step budget ran out while the link was still delivering
		// bytes has not finished: nothing can be said about the messages still
		// on their way (a stream that has gone idle without them is a verdict).
		unfinished := stop == simkit.StopBudget && !link.Idle()
		if unfinished {
			s.Count("probe.step_budget_ran_out_in_flight", 1)
		}
		mu.Lock()
		if decodeErr != nil {
			s.Violate("C22", "decode-error", "Decode", "Decode failed after %d of %d messages: %v", len(decoded), len(written), decodeErr)
		}
		for i := range decoded {
			if i >= len(written) || !bytes.Equal(decoded[i], written[i]) {
				s.Violate("C22", "message-mismatch", "Decode", "decoded message %d differs from the written one", i)
				break
			}
		}
		if writerDone && decodeErr == nil && len(decoded) != len(written) && !unfinished {
			s.Violate("C22", "message-count", "Decode", "%d messages written and flushed, %d decoded", len(written), len(decoded))
		}
		nontrivial = len(written) >= 2
		mu.Unlock()
		s.Finish()
		link.A.Close()
		link.B.Close()
		s.WaitActors(time.Minute)
	})
	// Oversize declared length: rejected without allocating that much.
	if len(res.Violations) == 0 && res.Trouble == "" {
		var ms0, ms1 runtime.MemStats
		var prefix [binary.MaxVarintLen64]byte
		// Any declared size above the limit, across the whole range a 64-bit
		// varint can express (a corrupt or hostile peer chooses it freely).
		k := plan.Seed % 1000
		sizes := []uint64{100*1024*1024 + 1 + k, 1<<31 - 1 + k, 1<<32 + k, 1<<40 + k, 1<<62 + k, 1<<63 - 1 - k, 1 << 63, 1<<63 + k, ^uint64(0) - k, ^uint64(0)}
		size := sizes[(plan.Seed/1000)%uint64(len(sizes))]
		n := binary.PutUvarint(prefix[:], size)
		runtime.ReadMemStats(&ms0)
		var err error
		var panicked any
		func() {
			defer func() { panicked = recover() }()
			err = encoding.NewProtobufDecoder(bufio.NewReader(io.MultiReader(bytes.NewReader(prefix[:n]), zeroReader{}))).Decode(&rsync.Transmission{})
		}()
		runtime.ReadMemStats(&ms1)
		if panicked != nil {
			res.Violations = append(res.Violations, simkit.Violation{Property: "C22", Rule: "oversize-not-rejected", Class: "panic", Detail: fmt.Sprintf("a declared message size of %d bytes made the decoder panic instead of rejecting it: %v", size, panicked)})
		} else if err == nil {
			res.Violations = append(res.Violations, simkit.Violation{Property: "C22", Rule: "oversize-accepted", Class: "Decode", Detail: fmt.Sprintf("a declared message size of %d bytes was accepted", size)})
		} else if ms1.TotalAlloc-ms0.TotalAlloc > 50*1024*1024 {
			res.Violations = append(res.Violations, simkit.Violation{Property: "C22", Rule: "oversize-allocated", Class: "Decode", Detail: fmt.Sprintf("rejecting a declared size of %d bytes allocated %d bytes", size, ms1.TotalAlloc-ms0.TotalAlloc)})
		}
		if res.Counters != nil {
			res.Counters["probe.oversize_rejected"]++
		}
	}
	res.NonTrivial = nontrivial
	res.Fingerprint = res.JournalHash
	return res
}

type zeroReader struct{}

func (zeroReader) Read(p []byte) (int, error) {
	for i := range p {
		p[i] = 0
	}
	return len(p), nil
}
