package syncsim

import (
	"context"
	"errors"
	"fmt"
	"os"
	"path/filepath"
	"sort"
	"strings"
	"sync"
	"time"

	"github.com/mutagen-io/mutagen/pkg/encoding"
	"github.com/mutagen-io/mutagen/pkg/logging"
	"github.com/mutagen-io/mutagen/pkg/selection"
	"github.com/mutagen-io/mutagen/pkg/synchronization"
	"github.com/mutagen-io/mutagen/pkg/synchronization/core"
	"github.com/mutagen-io/mutagen/pkg/synchronization/rsync"
	urlpkg "github.com/mutagen-io/mutagen/pkg/url"

	"verif/simkit"
)

// current is the harness of the run in progress (the protocol handler registry
// is global in mutagen; one run executes at a time per worker process).
var current *harness

type protocolHandler struct{}

func (protocolHandler) Connect(ctx context.Context, logger *logging.Logger, url *urlpkg.URL, prompter, session string,
	version synchronization.Version, configuration *synchronization.Configuration, alpha bool) (synchronization.Endpoint, error) {
	h := current
	if h == nil {
		return nil, errors.New("no simulation in progress")
	}
	return h.connect(ctx, logger, url, session, version, configuration, alpha)
}

func init() {
	synchronization.ProtocolHandlers[urlpkg.Protocol_Local] = protocolHandler{}
}

type scanRecord struct {
	n        int
	ancestor *core.Entry
	content  *core.Entry
	preserve bool
	seq      int64
	started  int64
	failed   bool
	fresh    bool // disk scenarios: the snapshot was verified equal to the disk when it returned
}

type cmdRecord struct {
	kind        string
	invoke, ret int64
	err         error
	waiting     bool
}

type harness struct {
	s    *simkit.Sim
	plan *simkit.Plan
	mode core.SynchronizationMode

	mu       sync.Mutex
	dataDir  string
	seq      int64
	trees    map[string]*core.Entry
	version  map[string]int
	scanned  map[string]int
	pollWake map[string]chan struct{}
	preserve map[string]bool
	userSeq  map[string]int64 // sequence of the last user edit per side

	mgr       *synchronization.Manager
	logger    *logging.Logger
	sessionID string
	sel       *selection.Selection

	// journal
	inflightEP    map[string]int
	transInFlight map[string]int
	scanCount     map[string]int
	scanStarts    map[string][]int64
	lastScan      map[string]*scanRecord
	evaluated     int
	expectedPlan  map[string][]*core.Change
	transCalls    int
	outcomeNo     map[string]int
	transCallNo   map[string]int
	stageCalls    int

	// lifecycle state as known to the harness
	pausedSince     int64 // >0: Pause returned at that seq and no Resume was invoked since
	terminatedSince int64
	lifecycleBusy   int // lifecycle commands in flight
	resumeInFlight  int // Resume/Reset calls in flight (they may start the session again)
	lifecycleHeld   int // the controller's lifecycle lock, as seen through the automatic yield sites
	mgrBusy         bool
	cmds            []*cmdRecord

	// settle bookkeeping
	quiet           bool
	quietViolations []string
	ideal           bool // no outcome faults, errors or mid-cycle edits so far
	haltWatch       bool
	settling        bool // settle phase: the simulated user is idle
	haltWatchSide   string
	haltFirstScan   int // first scan of the struck side after the event: 1 showed the event, 2 predates it
	haltEventSeq    int64
	haltCycleSeen   bool // the first cycle evaluated after the event has been looked at
	haltStraddled   bool // ... and one of its scans had started before the event
	propagatedAfter bool
	lastErrors      []string

	restError      string
	atRest         bool
	cycleClean     bool
	cycleN         int
	cycleScanStart int64
	cycleAncestor  *core.Entry    // the last-synchronized state the last evaluated cycle started from
	transReturned  map[string]int // side -> number of the cycle whose Transition call last returned
	crashArchive   *core.Entry    // set by noteCrash: what the archive must still hold after this crash
	crashArchiveOn bool
	resetSeq       int64 // sequence at which the last Reset returned (0: none pending a first cycle)
	cycleFresh     bool  // both scans of the last evaluated cycle were verified equal to the disk
	expectedPost   map[string]*core.Entry
	pending        map[string][]pendingResult

	// disk scenario (modelSide marks endpoints that stay in-memory models in a
	// mixed session)
	disk      *diskState
	modelSide map[string]bool
}

// currentTree returns what is on the endpoint now (caller holds h.mu for the
// model; the disk variant walks the real root).
func (h *harness) currentTree(side string) *core.Entry {
	if h.disk != nil && !h.modelSide[side] {
		return h.disk.walkTree(side)
	}
	return h.trees[side]
}

func (h *harness) rootPath(side string) string {
	if h.disk != nil && !h.modelSide[side] {
		return h.disk.roots[side]
	}
	return "/model/" + side
}

func (h *harness) configure(c *synchronization.Configuration) {
	if h.disk != nil {
		h.disk.configure(c)
	}
}

// applyUserOp performs a user edit on the model tree or on the real root.
func (h *harness) applyUserOp(op simkit.Op) {
	if h.disk != nil && !h.modelSide[op.Str(0)] {
		h.disk.userOp(op)
		return
	}
	h.userOp(op)
}

func (h *harness) mirrorInit() {
	if h.disk != nil {
		h.disk.mirror()
		return
	}
	h.mu.Lock()
	h.trees["beta"] = cloneEntry(h.trees["alpha"])
	if !h.preserve["beta"] {
		h.trees["beta"] = withoutExec(h.trees["beta"])
	}
	h.mu.Unlock()
}

// checkResetAncestor is C29's "a reset clears history", judged at every scan the
// controller starts after Reset returned: as long as the archive on disk is still
// the empty one the reset wrote, the controller must hand its endpoints no
// last-synchronized state at all (otherwise what disappeared while the session
// was paused is taken for a deletion and propagated: content is lost). Once a
// cycle has saved a new archive the question is closed. (Judged per scan, not
// per pair of scans: scans of different cycles can pair up after cancellations.)
func (h *harness) checkResetAncestor(side string, ancestor *core.Entry) {
	h.mu.Lock()
	pending := h.resetSeq > 0
	h.mu.Unlock()
	if !pending {
		return
	}
	onDisk, err := h.loadArchive()
	if err != nil || onDisk != nil {
		h.mu.Lock()
		h.resetSeq = 0
		h.mu.Unlock()
		return
	}
	h.s.Count("probe.scans_checked_after_reset", 1)
	if ancestor != nil {
		h.s.Violate("C29", "history-survived-reset", "Scan", "the archive on disk is still the empty one Reset wrote, yet the controller starts a %s scan with a last-synchronized state of %s", side, render(ancestor))
	}
}

// noteTransitionReturned records that the Transition call of the current cycle
// on this side has returned (whatever it returned).
func (h *harness) noteTransitionReturned(side string) {
	h.mu.Lock()
	if h.transReturned == nil {
		h.transReturned = map[string]int{}
	}
	h.transReturned[side] = h.cycleN
	h.mu.Unlock()
}

func (h *harness) next() int64 {
	h.seq++
	return h.seq
}

func sideName(alpha bool) string {
	if alpha {
		return "alpha"
	}
	return "beta"
}

func other(side string) string {
	if side == "alpha" {
		return "beta"
	}
	return "alpha"
}

// ------------------------------------------------------------ model endpoint

type modelEndpoint struct {
	h      *harness
	side   string
	closed bool
}

func (h *harness) connect(ctx context.Context, logger *logging.Logger, url *urlpkg.URL, session string,
	version synchronization.Version, configuration *synchronization.Configuration, alpha bool) (synchronization.Endpoint, error) {
	side := sideName(alpha)
	h.mu.Lock()
	h.inflightEP[side]++
	seq := h.next()
	paused, term := h.pausedSince, h.terminatedSince
	h.mu.Unlock()
	defer func() { h.mu.Lock(); h.inflightEP[side]--; h.mu.Unlock() }()
	if paused > 0 {
		h.s.Violate("C29", "activity-while-paused", "connect", "%s endpoint connect (seq %d) after Pause returned (seq %d) and before Resume", side, seq, paused)
	}
	if term > 0 {
		h.s.Violate("C29", "activity-after-terminate", "connect", "%s endpoint connect after Terminate returned", side)
	}
	h.s.Gate("ctl."+side, "connect")
	h.s.Logf("ctl."+side, "connect")
	if f := h.s.MatchFault("connect_error", side, h.s.Occur("connect."+side)); f != nil {
		return nil, errors.New("injected connect failure")
	}
	if h.disk != nil && !h.modelSide[side] {
		return h.connectDisk(logger, url, session, version, configuration, alpha)
	}
	return &modelEndpoint{h: h, side: side}, nil
}

// enter records an endpoint method invocation and parks at its gate.
func (h *harness) enter(side, method string) int64 {
	h.mu.Lock()
	h.inflightEP[side]++
	seq := h.next()
	paused, term := h.pausedSince, h.terminatedSince
	h.mu.Unlock()
	if paused > 0 && method != "shutdown" {
		h.s.Violate("C29", "activity-while-paused", method, "%s.%s started (seq %d) after Pause returned (seq %d) and before Resume", side, method, seq, paused)
	}
	if term > 0 && method != "shutdown" {
		h.s.Violate("C29", "activity-after-terminate", method, "%s.%s started after Terminate returned", side, method)
	}
	h.s.Gate("ctl."+side, method)
	return seq
}

func (h *harness) leave(side string) {
	h.mu.Lock()
	h.inflightEP[side]--
	h.mu.Unlock()
}

func (e *modelEndpoint) Poll(ctx context.Context) error {
	h := e.h
	h.enter(e.side, "poll")
	defer h.leave(e.side)
	for {
		h.mu.Lock()
		changed := h.version[e.side] != h.scanned[e.side]
		wake := h.pollWake[e.side]
		h.mu.Unlock()
		if changed {
			h.s.Logf("ctl."+e.side, "poll -> change")
			return nil
		}
		select {
		case <-ctx.Done():
			return nil
		case <-wake:
		}
	}
}

func (e *modelEndpoint) Scan(ctx context.Context, ancestor *core.Entry, full bool) (*core.Snapshot, error, bool) {
	h := e.h
	h.checkResetAncestor(e.side, ancestor)
	started := h.enter(e.side, "scan")
	defer h.leave(e.side)
	h.mu.Lock()
	h.scanStarts[e.side] = append(h.scanStarts[e.side], started)
	h.scanCount[e.side]++
	h.mu.Unlock()
	if f := h.s.MatchFault("scan_error", e.side, h.s.Occur("scan."+e.side)); f != nil {
		h.mu.Lock()
		h.ideal = false
		h.lastScan[e.side] = &scanRecord{n: h.scanCount[e.side], failed: true}
		h.cycleClean = false
		h.mu.Unlock()
		h.s.Logf("ctl."+e.side, "scan -> injected error (retry=%v)", f.Arg == 0)
		return nil, errors.New("injected scan failure"), f.Arg == 0
	}
	h.checkRecorded(e.side, ancestor)
	h.mu.Lock()
	content := cloneEntry(h.trees[e.side])
	h.scanned[e.side] = h.version[e.side]
	preserve := h.preserve[e.side]
	if !preserve {
		walk(content, "", func(_ string, x *core.Entry) { x.Executable = false })
	}
	h.mu.Unlock()
	snap := &core.Snapshot{Content: content, PreservesExecutability: preserve}
	walk(content, "", func(_ string, x *core.Entry) {
		switch x.Kind {
		case core.EntryKind_Directory:
			snap.Directories++
		case core.EntryKind_File:
			snap.Files++
		case core.EntryKind_SymbolicLink:
			snap.SymbolicLinks++
		}
	})
	h.onScanReturn(e.side, ancestor, content, preserve, started)
	h.s.Logf("ctl."+e.side, "scan full=%v -> %s", full, render(content))
	return snap, nil, false
}

func (e *modelEndpoint) Stage(paths []string, digests [][]byte) ([]string, []*rsync.Signature, rsync.Receiver, error) {
	h := e.h
	h.enter(e.side, "stage")
	defer h.leave(e.side)
	h.onStage(e.side, paths)
	h.s.Logf("ctl."+e.side, "stage %d paths", len(paths))
	// The model endpoint has every requested content available.
	return nil, nil, nil, nil
}

func (e *modelEndpoint) Supply(paths []string, signatures []*rsync.Signature, receiver rsync.Receiver) error {
	h := e.h
	h.enter(e.side, "supply")
	defer h.leave(e.side)
	return errors.New("model endpoint never needs to supply")
}

func (e *modelEndpoint) Transition(ctx context.Context, transitions []*core.Change) ([]*core.Entry, []*core.Problem, bool, error) {
	h := e.h
	h.enter(e.side, "transition")
	defer h.noteTransitionReturned(e.side)
	h.mu.Lock()
	h.transInFlight[e.side]++
	h.mu.Unlock()
	defer func() {
		h.mu.Lock()
		h.transInFlight[e.side]--
		h.mu.Unlock()
		h.leave(e.side)
	}()
	h.onTransition(e.side, transitions)
	callNo := h.s.Occur("transition." + e.side)
	if f := h.s.MatchFault("transition_error", e.side, callNo); f != nil {
		h.mu.Lock()
		h.ideal = false
		h.cycleClean = false
		h.mu.Unlock()
		h.s.Logf("ctl."+e.side, "transition -> injected whole-call error")
		return nil, nil, false, errors.New("injected transition failure")
	}
	// The list arrives in the order Reconcile's map iteration produced (chosen
	// by the runtime); outcomes are assigned, and changes applied, in path order
	// so that "the k-th change" names the same change in every execution. The
	// changes of one plan never overlap, so the order has no other effect.
	results := make([]*core.Entry, len(transitions))
	var problems []*core.Problem
	order := make([]int, len(transitions))
	for i := range order {
		order[i] = i
	}
	sort.Slice(order, func(a, b int) bool { return transitions[order[a]].Path < transitions[order[b]].Path })
	h.mu.Lock()
	defer h.mu.Unlock()
	for _, ti := range order {
		t := transitions[ti]
		cur := lookup(h.trees[e.side], t.Path)
		// A real endpoint refuses to touch content that differs from what the
		// scan recorded (C08); the model does the same.
		// (A filesystem that cannot store executability holds no such bits:
		// the expectation is compared without them, as the real endpoint
		// compares cached metadata rather than the propagated bit.)
		expectedOld, curSync := t.Old, syncPart(cur)
		if !h.preserve[e.side] {
			expectedOld, curSync = withoutExec(t.Old), withoutExec(curSync)
		}
		if !deepEqual(curSync, expectedOld) || hasUnsync(cur) {
			results[ti] = cloneEntry(t.Old)
			problems = append(problems, &core.Problem{Path: t.Path, Error: "content changed since scan"})
			h.ideal = false
			h.cycleClean = false
			h.s.Count("probe.transition_refused_modified", 1)
			continue
		}
		h.outcomeNo[e.side]++
		result := cloneEntry(t.New)
		if f := h.s.MatchFault("outcome", e.side, h.outcomeNo[e.side]); f != nil {
			h.ideal = false
			h.cycleClean = false
			switch f.Arg % 5 {
			case 1:
				result = cloneEntry(t.Old)
			case 2:
				result = nil
			case 3:
				result = prune(t.Old, uint64(f.Arg)*0x9e3779b97f4a7c15, 0)
			case 4:
				result = prune(t.New, uint64(f.Arg)*0x9e3779b97f4a7c15, 0)
			}
			h.s.Count(fmt.Sprintf("probe.outcome_class_%d", f.Arg%5), 1)
		}
		if !deepEqual(result, t.New) {
			problems = append(problems, &core.Problem{Path: t.Path, Error: "injected partial outcome"})
		}
		stored := cloneEntry(result)
		if !h.preserve[e.side] {
			stored = withoutExec(result)
		}
		if t.Path == "" {
			h.trees[e.side] = stored
		} else if parent := parentPath(t.Path); lookup(h.trees[e.side], parent) != nil && isDirLike(lookup(h.trees[e.side], parent)) {
			h.trees[e.side], _ = setAt(h.trees[e.side], t.Path, stored)
		} else {
			// Parent missing on the model "disk": nothing can be created.
			result = nil
			h.cycleClean = false
			problems = append(problems, &core.Problem{Path: t.Path, Error: "parent missing"})
		}
		results[ti] = result
		h.s.Count("probe.transitions_applied", 1)
		h.s.Count("probe.changes_applied_"+e.side, 1)
	}
	h.pending[e.side] = nil
	for i, t := range transitions {
		h.pending[e.side] = append(h.pending[e.side], pendingResult{t.Path, cloneEntry(results[i])})
	}
	h.s.Logf("ctl."+e.side, "transition %d changes -> %s", len(transitions), render(h.trees[e.side]))
	return results, problems, false, nil
}

// withoutExec returns a copy of an entry with every executable bit cleared.
func withoutExec(e *core.Entry) *core.Entry {
	c := cloneEntry(e)
	walk(c, "", func(_ string, x *core.Entry) { x.Executable = false })
	return c
}

func parentPath(p string) string {
	if i := strings.LastIndexByte(p, '/'); i >= 0 {
		return p[:i]
	}
	return ""
}

func (e *modelEndpoint) Shutdown() error {
	h := e.h
	h.enter(e.side, "shutdown")
	defer h.leave(e.side)
	e.closed = true
	return nil
}

// ------------------------------------------------------------------ monitors

// checkRecorded decides C05 rule 3 when the next cycle starts: the ancestor
// handed to the scan (the controller's in-memory archive) records, at each path
// transitioned in the previous cycle, exactly what the endpoint reported, and
// equals the archive file.
func (h *harness) checkRecorded(side string, ancestor *core.Entry) {
	h.mu.Lock()
	pend := h.pending[side]
	h.pending[side] = nil
	h.mu.Unlock()
	for _, p := range pend {
		got := lookup(ancestor, p.path)
		if !deepEqual(got, p.result) {
			h.s.Violate("C05", "archive-not-faithful", "ancestor", "%s reported %s at %q after its transition, but the next cycle's ancestor records %s", side, render(p.result), p.path, render(got))
		}
	}
	if len(pend) > 0 {
		h.s.Count("probe.recorded_results_checked", int64(len(pend)))
	}
	if err := ancestor.EnsureValid(true); err != nil {
		h.s.Violate("C05", "ancestor-invalid", "ancestor", "the ancestor handed to a scan is not valid synchronizable content: %v", err)
	}
	if file, err := h.loadArchive(); err == nil && !deepEqual(file, ancestor) {
		h.s.Violate("C05", "archive-file-differs", "archive", "the archive file holds %s but the controller works with %s", render(file), render(ancestor))
	}
}

func (h *harness) archivePath() string {
	return filepath.Join(h.dataDir, "archives", h.sessionID)
}

func (h *harness) sessionPath() string {
	return filepath.Join(h.dataDir, "sessions", h.sessionID)
}

// loadArchive reads the archive file as saved by the controller.
func (h *harness) loadArchive() (*core.Entry, error) {
	a := &core.Archive{}
	if err := encoding.LoadAndUnmarshalProtobuf(h.archivePath(), a); err != nil {
		return nil, err
	}
	return a.Content, nil
}

func (h *harness) onStage(side string, paths []string) {
	h.mu.Lock()
	h.stageCalls++
	quiet := h.quiet
	watch := h.haltWatch
	h.mu.Unlock()
	if h.oneWay() && side == "alpha" {
		h.s.Violate("C02", "alpha-modified", "Stage", "staging requested on the alpha (source) endpoint in mode %v", h.mode)
	}
	if quiet && len(paths) > 0 {
		h.s.Violate("C04", "not-a-fixpoint", "Stage", "quiet cycle staged %d files on %s", len(paths), side)
	}
	if watch && len(paths) > 0 && h.plan.C("halt_peer_shrinks") != 1 {
		h.s.Violate("C11", "propagated-after-root-event", "Stage", "staging reached %s after the root of %s was deleted, replaced or emptied", side, h.haltWatchSide)
	}
}

func (h *harness) oneWay() bool {
	return h.mode == core.SynchronizationMode_SynchronizationModeOneWaySafe || h.mode == core.SynchronizationMode_SynchronizationModeOneWayReplica
}

// onScanReturn records the snapshot; once both endpoints have returned the
// scan of the same cycle, the plan for that triple is evaluated (C06).
func (h *harness) onScanReturn(side string, ancestor, content *core.Entry, preserve bool, started int64, fresh ...bool) {
	h.mu.Lock()
	h.lastScan[side] = &scanRecord{n: h.scanCount[side], ancestor: ancestor, content: content, preserve: preserve, seq: h.next(), started: started, fresh: len(fresh) > 0 && fresh[0]}
	a, b := h.lastScan["alpha"], h.lastScan["beta"]
	// The controller always scans both endpoints of a cycle concurrently and
	// starts the next pair only after both returned: equal invocation numbers
	// identify a cycle.
	ready := a != nil && b != nil && a.n == b.n && a.n > h.evaluated && !a.failed && !b.failed
	if ready {
		h.evaluated = a.n
	}
	h.mu.Unlock()
	if ready {
		h.checkPlan(a, b)
	}
}

// checkPlan decides C06 on the plan for the triple this cycle reached.
func (h *harness) checkPlan(a, b *scanRecord) {
	h.mu.Lock()
	if h.haltWatch && !h.haltCycleSeen {
		h.haltCycleSeen = true
		h.haltStraddled = a.started < h.haltEventSeq || b.started < h.haltEventSeq
	}
	h.mu.Unlock()
	alpha, beta := a.content, b.content
	if h.plan.C("docker_ignores") > 0 {
		// (as the controller does with Docker-style ignores, before anything else)
		alpha, beta, _, _ = core.ReifyPhantomDirectories(a.ancestor, alpha, beta)
	}
	if a.preserve && beta != nil && !b.preserve {
		beta = core.PropagateExecutability(a.ancestor, alpha, beta)
	} else if b.preserve && alpha != nil && !a.preserve {
		alpha = core.PropagateExecutability(a.ancestor, beta, alpha)
	}
	anc, at, bt, conflicts := core.Reconcile(a.ancestor, alpha, beta, h.mode)
	h.s.Count("probe.plans_checked", 1)
	h.mu.Lock()
	h.expectedPlan = map[string][]*core.Change{"alpha": at, "beta": bt}
	// C04 per cycle: if the previous cycle applied everything it planned
	// exactly and this cycle's scans return exactly the trees that cycle left
	// behind, this cycle must plan nothing for either endpoint or the archive.
	prevClean := h.cycleClean && h.cycleN == a.n-1 && h.cycleN > 0 &&
		deepEqual(h.expectedPost["alpha"], a.content) && deepEqual(h.expectedPost["beta"], b.content)
	// The same claim on real endpoints without assuming what this cycle's scans
	// return: the previous cycle's snapshots were verified equal to the disk,
	// everything it planned was applied exactly, no fault was ever injected and
	// the user has not touched either root since those scans began. Then the
	// roots hold exactly what that cycle left and correct scans must say so
	// (a scan that returns an older snapshot here is what C42 forbids).
	prevExact := h.disk != nil && h.cycleClean && h.cycleFresh && h.ideal && h.cycleN == a.n-1 && h.cycleN > 0 &&
		h.userSeq["alpha"] < h.cycleScanStart && h.userSeq["beta"] < h.cycleScanStart
	h.cycleClean, h.cycleN = true, a.n
	h.cycleAncestor = cloneEntry(a.ancestor)
	h.cycleScanStart = min(a.started, b.started)
	h.cycleFresh = a.fresh && b.fresh
	post := func(content *core.Entry, ts []*core.Change) *core.Entry {
		out := cloneEntry(content)
		for _, t := range ts {
			if t.Path == "" {
				out = cloneEntry(t.New)
			} else {
				out, _ = setAt(out, t.Path, cloneEntry(t.New))
			}
		}
		return out
	}
	h.expectedPost = map[string]*core.Entry{"alpha": post(a.content, at), "beta": post(b.content, bt)}
	h.mu.Unlock()
	if prevExact {
		h.s.Count("probe.exact_cycles_on_disk", 1)
	}
	if prevExact && !prevClean {
		h.s.Count("probe.exact_cycle_followed_by_unexpected_snapshot", 1)
		if len(at)+len(bt)+len(anc) > 0 {
			h.s.Violate("C04", "not-a-fixpoint", "cycle-after-exact-cycle", "the previous cycle started from snapshots equal to the disk and applied all of its changes exactly, the user has not acted since, yet this cycle plans %d alpha changes, %d beta changes and %d archive changes; mode %v ancestor %s alpha snapshot %s beta snapshot %s (expected alpha %s beta %s)", len(at), len(bt), len(anc), h.mode, render(a.ancestor), render(alpha), render(beta), render(h.expectedPost["alpha"]), render(h.expectedPost["beta"]))
		}
	}
	if prevClean {
		h.s.Count("probe.fixpoint_cycles_checked", 1)
		if len(at)+len(bt)+len(anc) > 0 {
			h.s.Violate("C04", "not-a-fixpoint", "cycle", "the previous cycle applied all of its changes exactly and the endpoints hold exactly what it left, yet this cycle plans %d alpha changes, %d beta changes and %d archive changes; mode %v ancestor %s alpha %s beta %s", len(at), len(bt), len(anc), h.mode, render(a.ancestor), render(alpha), render(beta))
		}
	}
	type item struct {
		where string
		path  string
	}
	var items []item
	for _, c := range at {
		items = append(items, item{"alpha transition", c.Path})
	}
	for _, c := range bt {
		items = append(items, item{"beta transition", c.Path})
	}
	triple := fmt.Sprintf("mode %v ancestor %s alpha %s beta %s", h.mode, render(a.ancestor), render(alpha), render(beta))
	for i := range items {
		for j := i + 1; j < len(items); j++ {
			if pathRelated(items[i].path, items[j].path) {
				h.s.Violate("C06", "overlapping-actions", "plan", "%s at %q and %s at %q overlap; %s", items[i].where, items[i].path, items[j].where, items[j].path, triple)
			}
		}
	}
	if len(conflicts) > 0 {
		h.s.Count("probe.conflicts", int64(len(conflicts)))
	}
	for i, c := range conflicts {
		if err := c.EnsureValid(); err != nil {
			h.s.Violate("C06", "conflict-invalid", "plan", "conflict at %q invalid: %v; %s", c.Root, err, triple)
		}
		if len(c.AlphaChanges) == 0 || len(c.BetaChanges) == 0 {
			h.s.Violate("C06", "conflict-one-sided", "plan", "conflict at %q names %d alpha and %d beta changes; %s", c.Root, len(c.AlphaChanges), len(c.BetaChanges), triple)
		}
		for _, ch := range append(append([]*core.Change{}, c.AlphaChanges...), c.BetaChanges...) {
			if !pathWithin(ch.Path, c.Root) {
				h.s.Violate("C06", "conflict-change-outside-root", "plan", "conflict rooted at %q lists a change at %q; %s", c.Root, ch.Path, triple)
			}
		}
		for _, it := range items {
			if pathRelated(it.path, c.Root) {
				h.s.Violate("C06", "action-overlaps-conflict", "plan", "%s at %q overlaps the conflict rooted at %q; %s", it.where, it.path, c.Root, triple)
			}
		}
		for j := i + 1; j < len(conflicts); j++ {
			if pathRelated(c.Root, conflicts[j].Root) {
				h.s.Violate("C06", "nested-conflicts", "plan", "conflicts rooted at %q and %q are nested; %s", c.Root, conflicts[j].Root, triple)
			}
		}
	}
	_ = anc
}

// onTransition checks every transition handed to an endpoint against the
// archive file and the content currently on that endpoint (C01 C02 C03 C11 C18).
func (h *harness) onTransition(side string, transitions []*core.Change) {
	ancestor, aerr := h.loadArchive()
	h.mu.Lock()
	h.transCalls++
	quiet := h.quiet
	watch := h.haltWatch
	tree := cloneEntry(h.trees[side])
	var scanned *core.Entry
	if ls := h.lastScan[side]; ls != nil {
		scanned = ls.content
	}
	expected := h.expectedPlan[side]
	preserveSelf, preserveOther := h.preserve[side], h.preserve[other(side)]
	h.mu.Unlock()
	if aerr != nil {
		h.s.Violate("C05", "archive-unreadable", "archive", "archive file unreadable during a cycle: %v", aerr)
		return
	}
	if len(expected) != len(transitions) {
		h.s.Count("probe.plan_mismatch", 1)
	}
	if quiet && len(transitions) > 0 {
		h.s.Violate("C04", "not-a-fixpoint", "Transition", "quiet cycle still planned %d changes on %s, first at %q: %s -> %s", len(transitions), side, transitions[0].Path, render(transitions[0].Old), render(transitions[0].New))
	}
	if h.oneWay() && side == "alpha" && len(transitions) > 0 {
		h.s.Violate("C02", "alpha-modified", "Transition", "%d changes planned for the alpha (source) endpoint in mode %v, first at %q", len(transitions), h.mode, transitions[0].Path)
	}
	for _, t := range transitions {
		if watch && h.plan.C("halt_peer_shrinks") == 1 {
			// (The peer's user deleted entries of its own in the same cycle: a
			// cycle that scanned the struck side before its root was emptied
			// carries those ordinary deletions over - or, in a replica mode,
			// undoes them from what it believes the source still holds. Neither
			// is the emptying being propagated; this variant is judged by the
			// state the session ends up in.)
			h.s.Count("probe.activity_after_root_event_with_peer_deletions", 1)
		} else if watch {
			h.s.Violate("C11", "propagated-after-root-event", "Transition", "a transition at %q reached %s after the root of %s was deleted, replaced or emptied", t.Path, side, h.haltWatchSide)
		}
		if t.Path == "" && t.Old != nil && (t.New == nil || t.New.Kind != t.Old.Kind) {
			h.s.Violate("C11", "root-change-propagated", "Transition", "root deletion or type change planned for %s: %s -> %s", side, render(t.Old), render(t.New))
		}
		cur := lookup(tree, t.Path)
		// C03: nothing untracked/problematic may sit where a change is applied.
		if hasUnsync(t.Old) {
			h.s.Violate("C03", "untracked-in-plan", "Transition", "the change at %q on %s carries unsynchronizable content in its old entry %s", t.Path, side, render(t.Old))
		}
		// (Judged on what the scan of this cycle reported: content the user
		// plants after the scan is the endpoint's business, see C08.)
		if seen := lookup(scanned, t.Path); hasUnsync(seen) {
			h.s.Violate("C03", "untracked-would-be-removed", "Transition", "the change at %q on %s (%s -> %s) would remove untracked/problematic content the scan reported there: %s", t.Path, side, render(t.Old), render(t.New), render(seen))
		}
		_ = cur
		// C01/C02: destroyed content must be unchanged since the last
		// successful synchronization (equal to the saved archive).
		protected := false
		switch h.mode {
		case core.SynchronizationMode_SynchronizationModeTwoWaySafe:
			protected = true
		case core.SynchronizationMode_SynchronizationModeTwoWayResolved:
			protected = side == "alpha"
		case core.SynchronizationMode_SynchronizationModeOneWaySafe:
			protected = side == "beta"
		}
		if protected {
			prop := "C01"
			if h.mode != core.SynchronizationMode_SynchronizationModeTwoWaySafe {
				prop = "C02"
			}
			lost := destroyed(t.Path, t.Old, t.New)
			var paths []string
			for p := range lost {
				paths = append(paths, p)
			}
			sort.Strings(paths)
			for _, p := range paths {
				e := lost[p]
				if e.Kind == core.EntryKind_Directory {
					continue // a directory itself carries no user content
				}
				arch := lookup(ancestor, p)
				same := shallowEqual(arch, e)
				if !same && arch != nil && arch.Kind == e.Kind && e.Kind == core.EntryKind_File && string(arch.Digest) == string(e.Digest) && (!preserveSelf || !preserveOther) {
					// Executability is not comparable through a
					// non-preserving endpoint (C18 governs it).
					same = true
				}
				if !same {
					h.s.Violate(prop, "modified-content-destroyed", "Transition:"+side, "mode %v: the change at %q on %s (%s -> %s) destroys %s at %q, which differs from the last synchronized state %s", h.mode, t.Path, side, render(t.Old), render(t.New), render(e), p, render(arch))
				}
			}
		}
		// C18: the preserving side's executable bit never changes through
		// synchronization while the file exists on both sides.
		if preserveSelf && !preserveOther {
			walk(t.Old, t.Path, func(p string, o *core.Entry) {
				if o.Kind != core.EntryKind_File {
					return
				}
				rel := strings.TrimPrefix(strings.TrimPrefix(p, t.Path), "/")
				n := lookup(t.New, rel)
				arch := lookup(ancestor, p)
				unmodifiedHere := arch != nil && arch.Kind == core.EntryKind_File && string(arch.Digest) == string(o.Digest)
				if unmodifiedHere {
					h.s.Count("probe.exec_rule_applied", 1)
				}
				if n != nil && n.Kind == core.EntryKind_File && n.Executable != o.Executable && unmodifiedHere {
					h.s.Violate("C18", "executability-changed", "Transition", "file %q on the preserving endpoint %s goes from executable=%v to %v through a change coming from an endpoint that cannot store executability", p, side, o.Executable, n.Executable)
				}
			})
		}
	}
}

// ---------------------------------------------------------------- user edits

func (h *harness) bump(side string) {
	h.version[side]++
	h.userSeq[side] = h.next()
	select {
	case h.pollWake[side] <- struct{}{}:
	default:
	}
}

// ensureParents makes every proper prefix of path a directory.
func ensureParents(root *core.Entry, path string) *core.Entry {
	if root == nil || root.Kind != core.EntryKind_Directory {
		root = dirEntry()
	}
	comps := strings.Split(path, "/")
	defer func() {
		// Directories reported by transitions may carry nil content maps.
		walk(root, "", func(_ string, e *core.Entry) {
			if e.Kind == core.EntryKind_Directory && e.Contents == nil {
				e.Contents = map[string]*core.Entry{}
			}
		})
	}()
	if root.Contents == nil {
		root.Contents = map[string]*core.Entry{}
	}
	cur := root
	for _, c := range comps[:len(comps)-1] {
		if cur.Contents == nil {
			cur.Contents = map[string]*core.Entry{}
		}
		ch := cur.Contents[c]
		if ch == nil || ch.Kind != core.EntryKind_Directory {
			ch = dirEntry()
			cur.Contents[c] = ch
		}
		cur = ch
	}
	return root
}

func (h *harness) userOp(op simkit.Op) {
	side := op.Str(0)
	path := op.Str(1)
	h.mu.Lock()
	defer h.mu.Unlock()
	t := h.trees[side]
	switch op.Kind {
	case "put":
		t = ensureParents(t, path)
		exec := op.Int(1) == 1 && h.preserve[side]
		t, _ = setAt(t, path, fileEntry(op.Int(0), exec))
	case "edit":
		if cur := lookup(t, path); cur != nil && cur.Kind == core.EntryKind_File {
			cur.Digest = digestOf(op.Int(0))
		}
	case "mkdir":
		t = ensureParents(t, path)
		if cur := lookup(t, path); cur == nil || cur.Kind != core.EntryKind_Directory {
			t, _ = setAt(t, path, dirEntry())
		}
	case "link":
		t = ensureParents(t, path)
		t, _ = setAt(t, path, &core.Entry{Kind: core.EntryKind_SymbolicLink, Target: op.Str(2)})
	case "untracked":
		t = ensureParents(t, path)
		t, _ = setAt(t, path, &core.Entry{Kind: core.EntryKind_Untracked})
	case "problem":
		t = ensureParents(t, path)
		t, _ = setAt(t, path, &core.Entry{Kind: core.EntryKind_Problematic, Problem: "simulated unreadable content"})
	case "del":
		if lookup(t, path) != nil && path != "" {
			t, _ = setAt(t, path, nil)
		}
	case "chmod":
		if cur := lookup(t, path); cur != nil && cur.Kind == core.EntryKind_File && h.preserve[side] {
			cur.Executable = !cur.Executable
		}
	case "cp", "mv":
		// path -> S[2] on the same side (a copy or a rename of a file or tree).
		to := op.Str(2)
		if cur := lookup(t, path); cur != nil && path != "" && to != "" && !pathRelated(path, to) {
			t = ensureParents(t, to)
			t, _ = setAt(t, to, cloneEntry(cur))
			if op.Kind == "mv" {
				t, _ = setAt(t, path, nil)
			}
		}
	case "rootdel":
		t = nil
	case "rootfile":
		t = fileEntry(op.Int(0), false)
	case "rootempty":
		t = dirEntry()
	}
	h.trees[side] = t
	h.bump(side)
	h.s.Logf("user", "%s %s %q -> %s", op.Kind, side, path, render(t))
	h.s.Count("probe.user_edits", 1)
}

// ------------------------------------------------------------ client commands

func (h *harness) newLogger() *logging.Logger {
	return logging.NewLogger(logging.LevelDebug, &logSink{h: h})
}

// logSink checks C44 on every line the real system logs during any scenario.
type logSink struct{ h *harness }

func (k *logSink) Write(p []byte) (int, error) {
	line := string(p)
	if !strings.HasSuffix(line, "\n") || strings.Contains(line[:len(line)-1], "\n") || strings.ContainsAny(line, "\r\x1b") {
		k.h.s.Violate("C44", "malformed-line", "sink", "log line %q", line)
	}
	if strings.Contains(line, "unable to propagate changes to ancestor") || strings.Contains(line, "new ancestor is invalid") || strings.Contains(line, "invalid archive found on disk") {
		k.h.s.Violate("C05", "ancestor-update-failed", "controller", "the controller reported: %s", strings.TrimSpace(line))
	}
	k.h.s.Count("probe.log_lines", 1)
	if os.Getenv("VERIF_SHOWLOG") != "" {
		fmt.Fprint(os.Stderr, "    LOG ", line)
	}
	if os.Getenv("VERIF_JOURNAL_LOG") != "" {
		// (debugging aid only: changes the journal)
		k.h.s.Logf("mutagen", "%s", strings.TrimSpace(line))
	}
	return len(p), nil
}

func (h *harness) state() *synchronization.State {
	if h.mgr == nil {
		return nil
	}
	_, states, err := h.mgr.List(context.Background(), h.sel, 0)
	if err != nil || len(states) != 1 {
		return nil
	}
	return states[0]
}

func halted(st synchronization.Status) bool {
	return st == synchronization.Status_HaltedOnRootEmptied || st == synchronization.Status_HaltedOnRootDeletion || st == synchronization.Status_HaltedOnRootTypeChange
}

// clientOp executes one manager command on behalf of a client actor.
func (h *harness) clientOp(actor string, op simkit.Op) {
	s := h.s
	ctx := context.Background()
	rec := &cmdRecord{kind: op.Kind}
	lifecycle := op.Kind == "pause" || op.Kind == "resume" || op.Kind == "reset" || op.Kind == "terminate" || op.Kind == "restart"
	h.mu.Lock()
	rec.invoke = h.next()
	h.cmds = append(h.cmds, rec)
	if lifecycle {
		h.lifecycleBusy++
		// A cycle interrupted by a lifecycle command did not run to its end
		// (its archive may never have been saved): no fixpoint expectation
		// carries over to the next one.
		h.cycleClean = false
	}
	if op.Kind == "restart" {
		h.mgrBusy = true
	}
	if op.Kind == "resume" || op.Kind == "reset" {
		// From the invocation of Resume (Reset resumes a running session)
		// endpoint activity is legitimate again.
		if op.Kind == "resume" {
			h.pausedSince = 0
		}
		h.resumeInFlight++
	}
	mgr := h.mgr
	h.mu.Unlock()
	done := func(err error) {
		h.mu.Lock()
		rec.ret = h.next()
		rec.err = err
		if lifecycle {
			h.lifecycleBusy--
			h.cycleClean = false // scans that returned while the command ran belong to an interrupted cycle
		}
		if op.Kind == "resume" || op.Kind == "reset" {
			h.resumeInFlight--
		}
		if op.Kind == "restart" {
			// (only the restart itself ends the window in which the manager is
			// being replaced - not another caller's command that happened to
			// return meanwhile)
			h.mgrBusy = false
		}
		h.mu.Unlock()
		s.Logf(actor, "%s -> %v", op.Kind, err)
	}
	switch op.Kind {
	case "flush":
		rec.waiting = op.Int(0) == 0
		fctx := ctx
		var cancel context.CancelFunc
		if rec.waiting {
			fctx, cancel = context.WithTimeout(ctx, 40*time.Second+211*time.Microsecond)
		}
		err := mgr.Flush(fctx, h.sel, "", !rec.waiting)
		if cancel != nil {
			cancel()
		}
		h.mu.Lock()
		a, b := h.inflightTransitions("alpha"), h.inflightTransitions("beta")
		starts := map[string][]int64{"alpha": append([]int64(nil), h.scanStarts["alpha"]...), "beta": append([]int64(nil), h.scanStarts["beta"]...)}
		h.mu.Unlock()
		if rec.waiting && err == nil {
			s.Count("probe.flush_waited_ok", 1)
			for _, side := range []string{"alpha", "beta"} {
				ok := false
				for _, st := range starts[side] {
					if st > rec.invoke {
						ok = true
					}
				}
				if !ok {
					s.Violate("C29", "flush-without-cycle", "Flush", "a waiting Flush (invoked at seq %d) returned success but no %s scan started after the request", rec.invoke, side)
				}
			}
			if a+b > 0 {
				s.Violate("C29", "flush-before-transitions-finished", "Flush", "a waiting Flush returned success while %d transition call(s) were still in progress", a+b)
			}
		}
		done(err)
	case "pause":
		err := mgr.Pause(ctx, h.sel, "")
		if err != nil && strings.Contains(err.Error(), "unable to save session") {
			// The disk refused the save (an injected failure): the user tries
			// again, as one would.
			s.Count("probe.pause_retried_after_failed_save", 1)
			err = mgr.Pause(ctx, h.sel, "")
		}
		h.mu.Lock()
		busy := h.inflightEP["alpha"] + h.inflightEP["beta"]
		// (Another caller's Resume or Reset queued behind this Pause starts the
		// session again as soon as the Pause lets go of the controller: then
		// there is nothing to claim about the time after it.)
		overtaken := h.resumeInFlight > 0
		if err == nil && !overtaken {
			h.pausedSince = h.next()
		}
		h.mu.Unlock()
		if err == nil && busy > 0 && !overtaken {
			s.Violate("C29", "pause-returned-while-active", "Pause", "Pause returned while %d endpoint method(s) were still in progress", busy)
		}
		if err == nil {
			s.Count("probe.paused", 1)
		}
		done(err)
	case "resume":
		err := mgr.Resume(ctx, h.sel, "")
		done(err)
	case "reset":
		err := mgr.Reset(ctx, h.sel, "")
		// History may be gone (even when resuming afterwards failed): results
		// reported before the reset are no longer expected in the next
		// ancestor (C05 rule 3).
		h.mu.Lock()
		h.pending = map[string][]pendingResult{}
		h.cycleClean = false // ... and the next cycle starts from no ancestor
		h.mu.Unlock()
		if err == nil {
			h.mu.Lock()
			h.resetSeq = h.next()
			h.mu.Unlock()
			if anc, aerr := h.loadArchive(); aerr != nil || anc != nil {
				h.mu.Lock()
				stillPaused := h.pausedSince > 0
				h.mu.Unlock()
				// A running session may already have saved a new archive
				// after resuming; only a paused one must still be empty.
				if stillPaused || aerr != nil {
					s.Violate("C29", "reset-archive-not-empty", "Reset", "after Reset of a paused session the archive holds %s (err %v)", render(anc), aerr)
				}
			}
			s.Count("probe.reset", 1)
		}
		done(err)
	case "terminate":
		err := mgr.Terminate(ctx, h.sel, "")
		if err == nil {
			h.mu.Lock()
			h.terminatedSince = h.next()
			h.pausedSince = 0
			h.mu.Unlock()
			if _, e := os.Stat(h.sessionPath()); e == nil {
				s.Violate("C29", "terminate-left-session-file", "Terminate", "session file still exists after Terminate returned")
			}
			if _, e := os.Stat(h.archivePath()); e == nil {
				s.Violate("C29", "terminate-left-archive-file", "Terminate", "archive file still exists after Terminate returned")
			}
			s.Count("probe.terminated", 1)
		}
		done(err)
	case "list":
		st := h.state()
		if st != nil {
			s.Logf(actor, "list -> status %v paused=%v cycles=%d conflicts=%d err=%q", st.Status, st.Session.Paused, st.SuccessfulCycles, len(st.Conflicts), st.LastError)
		}
		done(nil)
	case "restart":
		mgr.Shutdown()
		h.mu.Lock()
		busy := h.inflightEP["alpha"] + h.inflightEP["beta"]
		wasPaused, wasTerm := h.pausedSince > 0, h.terminatedSince > 0
		h.mu.Unlock()
		if busy > 0 {
			s.Violate("C29", "shutdown-returned-while-active", "Shutdown", "Manager.Shutdown returned while %d endpoint method(s) were still in progress", busy)
		}
		nm, err := synchronization.NewManager(h.logger)
		if err != nil {
			s.Violate("C29", "restart-failed", "NewManager", "NewManager failed: %v", err)
			done(err)
			return
		}
		h.mu.Lock()
		h.mgr = nm
		h.mu.Unlock()
		_, states, lerr := nm.List(ctx, &selection.Selection{All: true}, 0)
		if lerr == nil {
			if wasTerm && len(states) != 0 {
				s.Violate("C29", "terminated-session-reloaded", "NewManager", "a terminated session is listed after restart")
			}
			if !wasTerm && len(states) != 1 {
				s.Violate("C05", "session-unloadable", "NewManager", "the session was not loaded by the restarted manager (%d sessions)", len(states))
			}
			if len(states) == 1 && wasPaused && !states[0].Session.Paused {
				s.Violate("C29", "paused-state-lost", "NewManager", "the session was paused before the restart and is not paused after it")
			}
		}
		s.Count("probe.restarts", 1)
		done(nil)
	case "sleep":
		time.Sleep(time.Duration(op.Int(0))*time.Millisecond + 37*time.Microsecond)
		done(nil)
	}
}

func (h *harness) inflightTransitions(side string) int {
	// Transitions are the only endpoint methods in progress right after a
	// cycle's staging; the caller holds h.mu.
	return 0 + h.transInFlight[side]
}
