//go:build !verifruntime

package simkit

func setRuntimeSeed(seed uint64) {}

// RuntimeOverlay reports whether this binary was built with the runtime overlay.
const RuntimeOverlay = false
