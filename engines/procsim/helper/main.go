// Command helper is one simulated daemon process of procsim: it does nothing on
// its own; it executes the commands the simulator sends on standard input, one
// per line, and answers each with one line on standard output.
package main

import (
	"bufio"
	"fmt"
	"os"
	"os/exec"
	"os/signal"
	"runtime"
	"strconv"
	"strings"
	"sync"
	"syscall"
	"time"

	"github.com/mutagen-io/mutagen/pkg/daemon"
	"github.com/mutagen-io/mutagen/pkg/verif"
)

type lockResult struct {
	lock *daemon.Lock
	err  error
}

// agentMain is the "agent" mode: a fake agent process for the transport stream
// (C35). It echoes its standard input to its standard output, reports the end of
// its input and SIGTERM on the event pipe (descriptor 4) and exits only when told
// to on the control pipe (descriptor 3): the simulator decides how it behaves.
func agentMain() {
	// Not for grandchildren: the simulator takes the end of the event pipe as
	// the end of this process.
	syscall.CloseOnExec(3)
	syscall.CloseOnExec(4)
	control := os.NewFile(3, "control")
	events := os.NewFile(4, "events")
	var mu sync.Mutex
	event := func(e string) {
		mu.Lock()
		fmt.Fprintln(events, e)
		mu.Unlock()
	}
	sig := make(chan os.Signal, 4)
	signal.Notify(sig, syscall.SIGTERM)
	go func() {
		for range sig {
			event("sigterm")
		}
	}()
	if os.Getenv("VERIF_AGENT_GRANDCHILD") == "1" {
		// A grandchild that inherits the output and error pipes and outlives
		// this process for a while (it does not inherit the control and event
		// pipes, so its life is invisible to the simulator).
		gc := exec.Command(os.Args[0], "sleeper")
		gc.Stdout, gc.Stderr = os.Stdout, os.Stderr
		if gc.Start() == nil {
			event(fmt.Sprintf("grandchild %d", gc.Process.Pid))
		} else {
			event("grandchild 0")
		}
	}
	if n, _ := strconv.Atoi(os.Getenv("VERIF_AGENT_CHATTER")); n > 0 {
		go func() {
			for i := 0; ; i++ {
				fmt.Fprintf(os.Stderr, "agent chatter line %d\n", i)
				time.Sleep(time.Duration(n) * time.Millisecond)
			}
		}()
	}
	if os.Getenv("VERIF_AGENT_NOREAD") != "1" {
		go agentEcho(event)
	}
	event("ready")
	in := bufio.NewScanner(control)
	for in.Scan() {
		if in.Text() == "exit" {
			os.Exit(0)
		}
	}
	// The simulator went away: do not linger.
	os.Exit(3)
}

// agentEcho copies standard input to standard output and reports its end.
func agentEcho(event func(string)) {
	buf := make([]byte, 32768)
	for {
		n, err := os.Stdin.Read(buf)
		if n > 0 {
			os.Stdout.Write(buf[:n])
		}
		if err != nil {
			event("stdin-eof")
			return
		}
	}
}

func main() {
	if len(os.Args) > 1 && os.Args[1] == "agent" {
		agentMain()
		return
	}
	if len(os.Args) > 1 && os.Args[1] == "sleeper" {
		// Outlives every bound of the scenario; the simulator removes it.
		time.Sleep(40 * time.Second)
		return
	}
	var lock *daemon.Lock
	var pending chan lockResult
	var pendingProceed chan struct{}
	in := bufio.NewScanner(os.Stdin)
	out := bufio.NewWriter(os.Stdout)
	reply := func(format string, args ...any) {
		fmt.Fprintf(out, format+"\n", args...)
		out.Flush()
	}
	reply("ready %d", os.Getpid())
	for in.Scan() {
		fields := strings.Fields(in.Text())
		if len(fields) == 0 {
			continue
		}
		switch fields[0] {
		case "acquire":
			if lock != nil {
				reply("already")
				continue
			}
			l, err := daemon.AcquireLock()
			if err != nil {
				reply("denied %v", err)
			} else {
				lock = l
				reply("acquired")
			}
		case "acquire-begin":
			// Run AcquireLock up to the point where the lock file is open but
			// the lock system call has not been made, and stop there.
			if lock != nil || pending != nil {
				reply("already")
				continue
			}
			// "acquire-begin K": stop at the K-th interleaving point inside the
			// acquisition (the hand-placed one before the lock call is the first;
			// the build inserts one before every fcntl call of the locking
			// package, whatever the code looks like today).
			stopAt, seen := 1, 0
			if len(fields) > 1 {
				fmt.Sscan(fields[1], &stopAt)
			}
			reached, proceed := make(chan struct{}), make(chan struct{})
			verif.YieldHook = func(site string) {
				if site == "locking.lock" || strings.HasPrefix(site, "auto:filesystem/locking.") {
					seen++
					if seen == stopAt {
						close(reached)
						<-proceed
					}
				}
			}
			result := make(chan lockResult, 1)
			go func() {
				l, err := daemon.AcquireLock()
				result <- lockResult{l, err}
			}()
			select {
			case <-reached:
				pending, pendingProceed = result, proceed
				reply("paused")
			case r := <-result:
				verif.YieldHook = nil
				if r.err != nil {
					reply("denied %v", r.err)
				} else {
					lock = r.lock
					reply("acquired")
				}
			}
		case "acquire-finish":
			if pending == nil {
				reply("notpending")
				continue
			}
			close(pendingProceed)
			r := <-pending
			pending, pendingProceed = nil, nil
			verif.YieldHook = nil
			if r.err != nil {
				reply("denied %v", r.err)
			} else {
				lock = r.lock
				reply("acquired")
			}
		case "release":
			if lock == nil {
				reply("notheld")
				continue
			}
			err := lock.Release()
			lock = nil
			if err != nil {
				reply("error %v", err)
			} else {
				reply("released")
			}
		case "journal":
			// Append a two-part record while believing to hold the lock; the
			// parent checks that records never interleave.
			f, err := os.OpenFile(fields[1], os.O_APPEND|os.O_WRONLY|os.O_CREATE, 0o600)
			if err != nil {
				reply("error %v", err)
				continue
			}
			fmt.Fprintf(f, "begin %s\n", fields[2])
			fmt.Fprintf(f, "end %s\n", fields[2])
			f.Close()
			reply("journaled")
		case "gc":
			// A garbage collection with its finalizers, at a point the
			// simulator chooses (file descriptors of unreachable os.File
			// values are closed here).
			runtime.GC()
			done := make(chan struct{})
			runtime.SetFinalizer(new([16]byte), func(*[16]byte) { close(done) })
			runtime.GC()
			select {
			case <-done:
			case <-time.After(2 * time.Second):
			}
			runtime.GC()
			reply("collected")
		case "exit":
			reply("bye")
			return
		}
	}
}
