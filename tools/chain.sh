#!/bin/sh
# usage: chain.sh   (meant for `vp run --with-repo -- tools/chain.sh`)
# Quick sweeps at three base seeds, the regression of every seeded change, then a thorough sweep.
for seed in 1 2 3; do echo "##### quick sweep seed $seed"; tools/sweep.sh quick 0 $seed; done
echo "##### allseeds"; tools/allseeds.sh 25
echo "##### thorough sweep"; tools/sweep.sh thorough 150 11
