// Package wiresim simulates byte streams and transports under fragmentation,
// short I/O and failure: rsync (C19, C20), framing (C22), handshakes (C34),
// logging (C44) and the stream helper writers (C47).
package wiresim

import (
	"testing"

	"verif/simkit"
)

// Engine implements simkit.Engine.
type Engine struct{}

func (Engine) Name() string { return "wiresim" }

func (Engine) Scenarios(property string) []string {
	switch property {
	case "C19":
		return []string{"rsync", "rsync-small"}
	case "C20":
		return []string{"rsyncfail", "rsyncfail-transmit"}
	case "C22":
		return []string{"framing"}
	case "C34":
		return []string{"handshake"}
	case "C44":
		return []string{"log"}
	case "C47":
		return []string{"writers"}
	}
	return nil
}

func (Engine) Generate(property, scenario string, seed uint64, tier string) *simkit.Plan {
	p := &simkit.Plan{Engine: "wiresim", Scenario: scenario, Property: property, Seed: seed, Cfg: map[string]int64{}}
	r := simkit.NewRand(seed, 1)
	switch scenario {
	case "rsync", "rsync-small", "rsyncfail", "rsyncfail-transmit":
		genRsync(p, r, tier)
	case "framing":
		genFraming(p, r, tier)
	case "handshake":
		genHandshake(p, r, tier)
	case "log":
		genLog(p, r, tier)
	case "writers":
		genWriters(p, r, tier)
	}
	return p
}

func (Engine) Execute(t *testing.T, plan *simkit.Plan) *simkit.Result {
	switch plan.Scenario {
	case "rsync", "rsync-small":
		return execRsync(plan)
	case "rsyncfail":
		return execRsyncFail(plan)
	case "rsyncfail-transmit":
		return execRsyncFailTransmit(plan)
	case "framing":
		return execFraming(t, plan)
	case "handshake":
		return execHandshake(t, plan)
	case "log":
		return execLog(t, plan)
	case "writers":
		return execWriters(plan)
	}
	return &simkit.Result{Seed: plan.Seed, Trouble: "unknown scenario " + plan.Scenario}
}
