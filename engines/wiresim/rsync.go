package wiresim

import (
	"bytes"
	"errors"
	"fmt"
	"io"
	"os"
	"path/filepath"

	"google.golang.org/protobuf/proto"

	"github.com/mutagen-io/mutagen/pkg/synchronization/rsync"

	"verif/simkit"
)

// genRsync draws a base/target pair configuration. The data itself is derived
// from cfg data_seed so that replay files stay small.
func genRsync(p *simkit.Plan, r *simkit.Rand, tier string) {
	c := p.Cfg
	c["data_seed"] = int64(r.Uint64() >> 1)
	if p.Scenario == "rsync-small" {
		// Strings over {a,b} up to length 6, every block size up to 6.
		c["alphabet"] = 2
		c["base_len"] = int64(r.Range(0, 6))
		c["target_len"] = int64(r.Range(0, 6))
		c["block"] = int64(r.Range(1, 6))
		c["maxdata"] = int64(r.Range(0, 4))
		c["mode"] = 0 // independent random strings
		return
	}
	c["alphabet"] = int64(simkit.Pick(r, []int{2, 3, 26, 256}))
	maxLen := 4096
	if tier == "thorough" && r.Chance(1, 8) {
		maxLen = 300000
	}
	c["base_len"] = int64(r.SmallBiased(maxLen))
	c["block"] = int64(simkit.Pick(r, []int{1, 2, 3, 7, 16, 64, 100, 1024, 0}))
	c["maxdata"] = int64(simkit.Pick(r, []int{0, 1, 2, 5, 17, 64, 1000}))
	c["mode"] = int64(r.Intn(4)) // 0 independent, 1 edits of base, 2 identical, 3 shuffled blocks
	c["target_len"] = int64(r.SmallBiased(maxLen))
	c["edits"] = int64(r.Range(0, 6))
	c["files"] = int64(r.Range(1, 4))
	if p.Scenario == "rsyncfail" || p.Scenario == "rsyncfail-transmit" {
		// Every transmit call index is enumerated (x2 modes), so keep the
		// number of calls per pair moderate.
		lim := 600
		if tier == "thorough" {
			lim = 3000
		}
		c["base_len"] = int64(r.SmallBiased(lim))
		c["target_len"] = int64(r.SmallBiased(lim))
		c["maxdata"] = int64(simkit.Pick(r, []int{0, 3, 8, 17, 64, 1000}))
		c["block"] = int64(simkit.Pick(r, []int{1, 2, 3, 7, 16, 64, 100}))
	}
}

// rsyncData derives the base and target byte strings of file index k.
func rsyncData(p *simkit.Plan, k int) (base, target []byte) {
	r := simkit.NewRand(uint64(p.C("data_seed")), uint64(100+k))
	alpha := int(p.C("alphabet"))
	base = r.Bytes(int(p.C("base_len")), alpha)
	switch p.C("mode") {
	case 0:
		target = r.Bytes(int(p.C("target_len")), alpha)
	case 2:
		target = append([]byte(nil), base...)
	case 3:
		bs := int(p.C("block"))
		if bs == 0 {
			bs = 64
		}
		var blocks [][]byte
		for i := 0; i < len(base); i += bs {
			blocks = append(blocks, base[i:min(i+bs, len(base))])
		}
		for i := 0; i < len(blocks)+2 && len(blocks) > 0; i++ {
			target = append(target, blocks[r.Intn(len(blocks))]...)
			if r.Chance(1, 3) {
				target = append(target, r.Bytes(r.Range(1, 5), alpha)...)
			}
		}
	default:
		target = append([]byte(nil), base...)
		for e := int64(0); e < p.C("edits"); e++ {
			pos := r.Intn(len(target) + 1)
			switch r.Intn(3) {
			case 0: // insert
				ins := r.Bytes(r.Range(1, 40), alpha)
				target = append(target[:pos:pos], append(ins, target[pos:]...)...)
			case 1: // delete
				end := min(len(target), pos+r.Range(1, 40))
				target = append(target[:pos:pos], target[end:]...)
			default: // overwrite
				for i := pos; i < min(len(target), pos+r.Range(1, 10)); i++ {
					target[i] = r.Bytes(1, alpha)[0]
				}
			}
		}
	}
	return
}

// fragReader returns short reads whose sizes the schedule vector chooses. It
// deliberately does not implement io.ByteReader so that the engine wraps it.
type fragReader struct {
	s    *simkit.Sim
	data []byte
	max  int
}

func (f *fragReader) Read(p []byte) (int, error) {
	if len(f.data) == 0 {
		return 0, io.EOF
	}
	if len(p) == 0 {
		return 0, nil
	}
	n := min(len(p), len(f.data))
	if f.max > 0 {
		n = min(n, 1+f.s.Choose(f.max))
	}
	copy(p, f.data[:n])
	f.data = f.data[n:]
	f.s.Count("probe.short_read", 1)
	return n, nil
}

type fragSeeker struct {
	s   *simkit.Sim
	r   *bytes.Reader
	max int
}

func (f *fragSeeker) Read(p []byte) (int, error) {
	if len(p) > 1 && f.max > 0 {
		p = p[:min(len(p), 1+f.s.Choose(f.max))]
	}
	return f.r.Read(p)
}
func (f *fragSeeker) Seek(o int64, w int) (int64, error) { return f.r.Seek(o, w) }

func cloneOp(o *rsync.Operation) *rsync.Operation { return proto.Clone(o).(*rsync.Operation) }

func opsString(ops []*rsync.Operation) string {
	var b bytes.Buffer
	for _, o := range ops {
		if len(o.Data) > 0 {
			fmt.Fprintf(&b, "D%d:%x;", len(o.Data), simkit.Digest(string(o.Data)))
		} else {
			fmt.Fprintf(&b, "B%d+%d;", o.Start, o.Count)
		}
	}
	return b.String()
}

// execRsync decides C19 for one base/target pair.
func execRsync(plan *simkit.Plan) *simkit.Result {
	res := simkit.RunPlain(plan, func(s *simkit.Sim) {
		base, target := rsyncData(plan, 0)
		block, maxData := uint64(plan.C("block")), uint64(plan.C("maxdata"))
		frag := 0
		if plan.Scenario == "rsync" {
			frag = 1 + int(plan.Seed%7)
		} else {
			frag = 2
		}
		engine := rsync.NewEngine()
		sig, err := engine.Signature(&fragReader{s, base, frag}, block)
		if err != nil {
			s.Violate("C19", "signature-error", "signature", "Signature failed: %v", err)
			return
		}
		if err := sig.EnsureValid(); err != nil {
			s.Violate("C19", "signature-invalid", "signature", "invalid signature: %v", err)
			return
		}
		ref := rsync.NewEngine().BytesSignature(base, sig.BlockSize) // block 0 = "engine chooses"; compare at the size it chose
		if !proto.Equal(sig, ref) {
			s.Violate("C19", "signature-fragmentation", "signature", "signature depends on read fragmentation (base %d bytes, block %d)", len(base), block)
		}
		deltify := func(fragMax int) ([]*rsync.Operation, error) {
			var ops []*rsync.Operation
			err := engine.Deltify(&fragReader{s, target, fragMax}, sig, maxData, func(o *rsync.Operation) error {
				ops = append(ops, cloneOp(o))
				return nil
			})
			return ops, err
		}
		ops, err := deltify(frag)
		if err != nil {
			s.Violate("C19", "deltify-error", "deltify", "Deltify failed without any injected failure: %v", err)
			return
		}
		s.Logf("rsync", "base=%d target=%d block=%d(sig %d) maxdata=%d ops=%d", len(base), len(target), block, sig.BlockSize, maxData, len(ops))
		limit := maxData
		if limit == 0 {
			limit = rsync.DefaultMaximumDataOperationSize
		}
		dataBytes, blockOps := 0, 0
		for i, o := range ops {
			if err := o.EnsureValid(); err != nil {
				s.Violate("C19", "op-invalid", "deltify", "operation %d invalid: %v", i, err)
			}
			if len(o.Data) > 0 {
				dataBytes += len(o.Data)
				if uint64(len(o.Data)) > limit {
					s.Violate("C19", "op-data-too-large", "deltify", "data operation %d has %d bytes > limit %d", i, len(o.Data), limit)
				}
			} else {
				blockOps++
				if o.Start+o.Count > uint64(len(sig.Hashes)) || o.Start+o.Count < o.Start {
					s.Violate("C19", "op-out-of-range", "deltify", "block operation %d [%d,+%d) beyond %d blocks", i, o.Start, o.Count, len(sig.Hashes))
					return
				}
			}
		}
		if blockOps > 0 {
			s.Count("probe.block_ops", 1)
		}
		if dataBytes > 0 {
			s.Count("probe.data_ops", 1)
		}
		// Patch through a short-reading base and compare.
		var out bytes.Buffer
		baseReader := &fragSeeker{s, bytes.NewReader(base), frag}
		for i, o := range ops {
			if err := engine.Patch(&out, baseReader, sig, o); err != nil {
				s.Violate("C19", "patch-error", "patch", "Patch failed at operation %d: %v", i, err)
				return
			}
		}
		if !bytes.Equal(out.Bytes(), target) {
			s.Violate("C19", "reconstruct", "patch", "patched output (%d bytes) differs from target (%d bytes); base %d bytes block %d maxdata %d", out.Len(), len(target), len(base), block, maxData)
		}
		if bytes.Equal(base, target) && dataBytes > 0 {
			s.Violate("C19", "unchanged-literal", "deltify", "unchanged target of %d bytes sent with %d literal bytes", len(target), dataBytes)
		}
		// Fragmentation independence: unfragmented reads give the same delta.
		ops2, err := deltify(0)
		if err != nil || opsString(ops2) != opsString(ops) {
			s.Violate("C19", "delta-fragmentation", "deltify", "delta depends on read fragmentation (err=%v)", err)
		}
	})
	res.NonTrivial = res.Counters["probe.block_ops"] > 0 || res.Counters["probe.data_ops"] > 0
	res.Fingerprint = simkit.Digest(res.JournalHash, fmt.Sprint(plan.Cfg))
	return res
}

var errInjected = errors.New("injected transmit failure")

// execRsyncFail decides C20 at the Engine.Deltify level: for every transmit
// call index i and both failure modes, either Deltify reports an error or the
// delivered operations reconstruct the target.
func execRsyncFail(plan *simkit.Plan) *simkit.Result {
	res := simkit.RunPlain(plan, func(s *simkit.Sim) {
		base, target := rsyncData(plan, 0)
		block, maxData := uint64(plan.C("block")), uint64(plan.C("maxdata"))
		engine := rsync.NewEngine()
		sig := engine.BytesSignature(base, block)
		// Fault-free run: count transmit calls.
		calls := 0
		if err := engine.Deltify(bytes.NewReader(target), sig, maxData, func(o *rsync.Operation) error { calls++; return nil }); err != nil {
			s.Violate("C20", "faultfree-error", "deltify", "fault-free Deltify failed: %v", err)
			return
		}
		s.Logf("rsyncfail", "base=%d target=%d block=%d maxdata=%d calls=%d", len(base), len(target), block, maxData, calls)
		for i := 1; i <= calls; i++ {
			for _, persistent := range []bool{false, true} {
				s.Count("enum.positions", 1)
				var delivered []*rsync.Operation
				call, failed, afterFail := 0, false, 0
				err := engine.Deltify(bytes.NewReader(target), sig, maxData, func(o *rsync.Operation) error {
					call++
					if failed {
						afterFail++
					}
					if call == i || (persistent && call > i) {
						failed = true
						s.Count("fault.transmit_error", 1)
						return errInjected
					}
					delivered = append(delivered, cloneOp(o))
					return nil
				})
				if afterFail > 0 {
					s.Count("probe.transmit_called_after_failure", 1)
				}
				if err != nil {
					s.Count("probe.sender_reported_error", 1)
					continue
				}
				// Sender claims success: the receiver must hold the target.
				var out bytes.Buffer
				perr := error(nil)
				for _, o := range delivered {
					if perr = engine.Patch(&out, bytes.NewReader(base), sig, o); perr != nil {
						break
					}
				}
				if perr != nil || !bytes.Equal(out.Bytes(), target) {
					kind := "data"
					// Identify which kind of operation was lost for the class.
					k := 0
					engine.Deltify(bytes.NewReader(target), sig, maxData, func(o *rsync.Operation) error {
						k++
						if k == i && len(o.Data) == 0 {
							kind = "block"
						}
						return nil
					})
					mode := "once"
					if persistent {
						mode = "persistent"
					}
					s.Violate("C20", "success-after-failed-transmit", "Deltify:"+kind+"-op",
						"Deltify returned nil although transmit call %d/%d (%s, a %s operation) failed; receiver has %d bytes != target %d bytes (patch err %v)",
						i, calls, mode, kind, out.Len(), len(target), perr)
				}
			}
		}
	})
	res.NonTrivial = res.Counters["enum.positions"] > 0
	res.Fingerprint = simkit.Digest(res.JournalHash)
	return res
}

// listEncoder records transmissions and fails at a chosen call.
type listEncoder struct {
	s          *simkit.Sim
	list       []*rsync.Transmission
	call       int
	failAt     int
	persistent bool
	finalized  int
}

func (e *listEncoder) Encode(t *rsync.Transmission) error {
	e.call++
	if e.call == e.failAt || (e.persistent && e.call > e.failAt && e.failAt > 0) {
		e.s.Count("fault.transmit_error", 1)
		return errInjected
	}
	e.list = append(e.list, proto.Clone(t).(*rsync.Transmission))
	return nil
}
func (e *listEncoder) Finalize() error { e.finalized++; return nil }

type listDecoder struct {
	list []*rsync.Transmission
}

func (d *listDecoder) Decode(t *rsync.Transmission) error {
	if len(d.list) == 0 {
		return io.ErrUnexpectedEOF
	}
	proto.Reset(t)
	proto.Merge(t, d.list[0])
	d.list = d.list[1:]
	return nil
}
func (d *listDecoder) Finalize() error { return nil }

type memSinker struct{ files map[string]*bytes.Buffer }
type memFile struct{ *bytes.Buffer }

func (memFile) Close() error { return nil }
func (m *memSinker) Sink(path string) (io.WriteCloser, error) {
	b := &bytes.Buffer{}
	m.files[path] = b
	return memFile{b}, nil
}

// execRsyncFailTransmit decides C20 at the rsync.Transmit level with real
// files and the real receiver: for every Receive call index, if Transmit
// reports success then every file the receiver produced equals its source.
func execRsyncFailTransmit(plan *simkit.Plan) *simkit.Result {
	res := simkit.RunPlain(plan, func(s *simkit.Sim) {
		dir, err := simkit.MkdirTemp(shmDir(), "verif-wiresim-")
		if err != nil {
			panic(err)
		}
		defer os.RemoveAll(dir)
		srcRoot, dstRoot := filepath.Join(dir, "src"), filepath.Join(dir, "dst")
		os.Mkdir(srcRoot, 0o700)
		os.Mkdir(dstRoot, 0o700)
		nfiles := int(max(plan.C("files"), 1))
		block := uint64(plan.C("block"))
		var paths []string
		var sigs []*rsync.Signature
		targets := map[string][]byte{}
		engine := rsync.NewEngine()
		for k := 0; k < nfiles; k++ {
			base, target := rsyncData(plan, k)
			name := fmt.Sprintf("f%d", k)
			os.WriteFile(filepath.Join(srcRoot, name), target, 0o600)
			os.WriteFile(filepath.Join(dstRoot, name), base, 0o600)
			paths = append(paths, name)
			sigs = append(sigs, engine.BytesSignature(base, block))
			targets[name] = target
		}
		run := func(failAt int, persistent bool) (error, *listEncoder) {
			enc := &listEncoder{s: s, failAt: failAt, persistent: persistent}
			err := rsync.Transmit(srcRoot, paths, sigs, rsync.NewEncodingReceiver(enc))
			return err, enc
		}
		err0, enc0 := run(0, false)
		if err0 != nil {
			s.Violate("C20", "faultfree-error", "transmit", "fault-free Transmit failed: %v", err0)
			return
		}
		calls := enc0.call
		s.Logf("rsyncfail", "files=%d calls=%d", nfiles, calls)
		for i := 1; i <= calls; i++ {
			for _, persistent := range []bool{false, true} {
				s.Count("enum.positions", 1)
				terr, enc := run(i, persistent)
				if enc.finalized != 1 {
					s.Count("probe.receiver_not_finalized_once", 1)
				}
				if terr != nil {
					s.Count("probe.sender_reported_error", 1)
					continue
				}
				sink := &memSinker{files: map[string]*bytes.Buffer{}}
				recv, _ := rsync.NewReceiver(dstRoot, paths, sigs, sink)
				derr := rsync.DecodeToReceiver(&listDecoder{enc.list}, uint64(len(paths)), recv)
				bad := ""
				for _, p := range paths {
					b := sink.files[p]
					if b == nil || !bytes.Equal(b.Bytes(), targets[p]) {
						bad = p
						break
					}
				}
				if derr != nil || bad != "" {
					mode := "once"
					if persistent {
						mode = "persistent"
					}
					s.Violate("C20", "success-after-failed-transmit", "Transmit",
						"Transmit returned nil although Receive call %d/%d failed (%s); receiver error %v, first wrong file %q", i, calls, mode, derr, bad)
				}
			}
		}
	})
	res.NonTrivial = res.Counters["enum.positions"] > 0
	res.Fingerprint = simkit.Digest(res.JournalHash)
	return res
}

func shmDir() string {
	if st, err := os.Stat("/dev/shm"); err == nil && st.IsDir() {
		return "/dev/shm"
	}
	return os.TempDir()
}
