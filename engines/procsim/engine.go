// Package procsim uses real operating-system processes as the nodes of a
// simulation: helper processes linking mutagen's daemon lock do nothing on
// their own and execute, one at a time, the commands the seeded simulator sends
// them (acquire, release, journal, exit) or are killed by it.
package procsim

import (
	"bufio"
	"fmt"
	"io"
	"os"
	"os/exec"
	"path/filepath"
	"strings"
	"syscall"
	"testing"

	"verif/simkit"
)

// Engine implements simkit.Engine.
type Engine struct{}

func (Engine) Name() string { return "procsim" }

func (Engine) Scenarios(property string) []string {
	switch property {
	case "C28":
		return []string{"lock"}
	case "C35":
		return []string{"agentstream"}
	}
	return nil
}

func (Engine) Generate(property, scenario string, seed uint64, tier string) *simkit.Plan {
	p := &simkit.Plan{Engine: "procsim", Scenario: scenario, Property: property, Seed: seed, Cfg: map[string]int64{}}
	r := simkit.NewRand(seed, 1)
	if scenario == "agentstream" {
		genAgentStream(p, r, tier)
		return p
	}
	n := r.Range(2, 5)
	p.Cfg["processes"] = int64(n)
	ops := r.Range(4, 30)
	if tier == "thorough" {
		ops = r.Range(4, 80)
	}
	if r.Chance(1, 3) {
		// One process acquires, releases and acquires again (or is refused and
		// succeeds later), a garbage collection runs during the second hold,
		// and another process then tries.
		a, b := fmt.Sprintf("p%d", r.Intn(n)), fmt.Sprintf("p%d", r.Intn(n))
		first := []string{"acquire", "release"}
		if r.Chance(1, 2) {
			first = []string{"acquire-begin", "acquire-finish", "release"}
		}
		for _, k := range append(first, "acquire", "gc") {
			p.Ops = append(p.Ops, simkit.Op{Actor: a, Kind: k})
		}
		p.Ops = append(p.Ops, simkit.Op{Actor: b, Kind: "acquire"}, simkit.Op{Actor: a, Kind: "journal"})
	}
	for i := 0; i < ops; i++ {
		// acquire-begin / acquire-finish split one acquisition at the point
		// where the lock file is open and the lock call has not been made, so
		// that other processes act in between.
		kind := []string{"acquire", "release", "kill", "exit", "journal", "spawn", "acquire-begin", "acquire-finish", "gc"}[r.Weighted([]int{30, 25, 8, 4, 12, 8, 12, 12, 12})]
		op := simkit.Op{Actor: fmt.Sprintf("p%d", r.Intn(n)), Kind: kind}
		if kind == "acquire-begin" {
			// Which interleaving point of the acquisition it stops at (1: before
			// the lock call; further ones exist only where the code makes more
			// than one system call on the lock file).
			op.N = []int64{int64(simkit.Pick(r, []int{1, 1, 2, 3, 3, 4}))}
		}
		p.Ops = append(p.Ops, op)
	}
	if r.Chance(1, 4) {
		// A contender that stops between two of its system calls after having
		// found the lock taken, the holder letting go just then, and a third
		// process trying afterwards.
		a, b, c := "p0", "p1", fmt.Sprintf("p%d", n-1)
		p.Ops = append(p.Ops, simkit.Op{Actor: a, Kind: "acquire"},
			simkit.Op{Actor: b, Kind: "acquire-begin", N: []int64{int64(simkit.Pick(r, []int{2, 3, 3, 4}))}},
			simkit.Op{Actor: a, Kind: simkit.Pick(r, []string{"release", "release", "kill", "exit"})},
			simkit.Op{Actor: b, Kind: "acquire-finish"},
			simkit.Op{Actor: c, Kind: "acquire"},
			simkit.Op{Actor: b, Kind: "journal"}, simkit.Op{Actor: c, Kind: "journal"})
	}
	return p
}

type proc struct {
	cmd   *exec.Cmd
	in    io.WriteCloser
	out   *bufio.Scanner
	alive bool
	holds bool
	// pending: stopped inside AcquireLock, lock file open, lock call not made.
	pending bool
}

func (p *proc) send(cmd string) (string, error) {
	if _, err := fmt.Fprintln(p.in, cmd); err != nil {
		return "", err
	}
	if !p.out.Scan() {
		return "", io.ErrUnexpectedEOF
	}
	return p.out.Text(), nil
}

func (Engine) Execute(t *testing.T, plan *simkit.Plan) *simkit.Result {
	if plan.Scenario == "agentstream" {
		return execAgentStream(plan)
	}
	helper := os.Getenv("VERIF_HELPER")
	res := simkit.RunPlain(plan, func(s *simkit.Sim) {
		if helper == "" {
			panic("VERIF_HELPER not set")
		}
		dir, err := simkit.MkdirTemp("/dev/shm", "verif-procsim-")
		if err != nil {
			panic(err)
		}
		defer os.RemoveAll(dir)
		journal := filepath.Join(dir, "journal")
		procs := map[string]*proc{}
		spawn := func(name string) *proc {
			cmd := exec.Command(helper)
			cmd.Env = append(os.Environ(), "MUTAGEN_DATA_DIRECTORY="+filepath.Join(dir, "data"))
			in, _ := cmd.StdinPipe()
			outPipe, _ := cmd.StdoutPipe()
			if err := cmd.Start(); err != nil {
				panic(err)
			}
			p := &proc{cmd: cmd, in: in, out: bufio.NewScanner(outPipe), alive: true}
			if !p.out.Scan() || !strings.HasPrefix(p.out.Text(), "ready") {
				panic("helper did not start")
			}
			procs[name] = p
			s.Count("probe.processes_started", 1)
			return p
		}
		reap := func(p *proc) {
			p.in.Close()
			p.cmd.Wait()
			p.alive, p.holds, p.pending = false, false, false
		}
		defer func() {
			for _, p := range procs {
				if p.alive {
					p.cmd.Process.Kill()
					reap(p)
				}
			}
		}()
		holder := func() string {
			for n, p := range procs {
				if p.alive && p.holds {
					return n
				}
			}
			return ""
		}
		for i := 0; i < int(plan.C("processes")); i++ {
			spawn(fmt.Sprintf("p%d", i))
		}
		seq := 0
		for _, op := range plan.Ops {
			p := procs[op.Actor]
			if p == nil {
				continue
			}
			if !p.alive {
				if op.Kind == "spawn" {
					spawn(op.Actor)
					s.Logf(op.Actor, "respawned")
				}
				continue
			}
			kind := op.Kind
			if p.pending {
				switch kind {
				case "acquire", "acquire-finish":
					kind = "acquire-finish"
				case "kill", "exit":
				default:
					continue // blocked inside AcquireLock
				}
			} else if kind == "acquire-finish" {
				continue
			}
			switch kind {
			case "acquire-begin":
				if p.holds {
					continue
				}
				stopAt := op.Int(0)
				if stopAt < 1 {
					stopAt = 1
				}
				h := holder()
				reply, err := p.send(fmt.Sprintf("acquire-begin %d", stopAt))
				if err != nil {
					s.Violate("C28", "helper-died", "acquire", "%s died during acquire: %v", op.Actor, err)
					return
				}
				s.Logf(op.Actor, "acquire-begin %d (holder %q) -> %s", stopAt, h, strings.Fields(reply)[0])
				switch {
				case reply == "paused":
					p.pending = true
					s.Count("probe.acquire_split", 1)
					s.Count(fmt.Sprintf("probe.acquire_split_at_%d", stopAt), 1)
				case strings.HasPrefix(reply, "acquired"):
					// (The acquisition has fewer interleaving points than asked
					// for: it ran to its end.)
					if h != "" {
						s.Violate("C28", "two-holders", "acquire", "%s acquired the daemon lock while %s holds it", op.Actor, h)
					}
					p.holds = true
					s.Count("probe.acquired", 1)
				case strings.HasPrefix(reply, "denied"):
					if h == "" {
						s.Violate("C28", "lock-not-available", "acquire", "%s was denied the daemon lock although no live process holds it (after release or death of the holder): %s", op.Actor, reply)
					}
					s.Count("probe.denied", 1)
				case reply == "already":
				default:
					s.Violate("C28", "helper-protocol", "acquire-begin", "unexpected reply %q", reply)
				}
			case "acquire", "acquire-finish":
				h := holder()
				p.pending = false
				reply, err := p.send(kind)
				if err != nil {
					s.Violate("C28", "helper-died", "acquire", "%s died during acquire: %v", op.Actor, err)
					return
				}
				s.Logf(op.Actor, "acquire (holder %q) -> %s", h, strings.Fields(reply)[0])
				switch {
				case strings.HasPrefix(reply, "acquired"):
					if h != "" {
						s.Violate("C28", "two-holders", "acquire", "%s acquired the daemon lock while %s holds it", op.Actor, h)
					}
					p.holds = true
					s.Count("probe.acquired", 1)
				case strings.HasPrefix(reply, "denied"):
					if h == "" {
						s.Violate("C28", "lock-not-available", "acquire", "%s was denied the daemon lock although no live process holds it (after release or death of the holder): %s", op.Actor, reply)
					}
					s.Count("probe.denied", 1)
				case reply == "already":
				}
			case "release":
				reply, err := p.send("release")
				if err != nil {
					s.Violate("C28", "helper-died", "release", "%s died during release: %v", op.Actor, err)
					return
				}
				s.Logf(op.Actor, "release -> %s", reply)
				if p.holds && reply != "released" {
					s.Violate("C28", "release-failed", "release", "%s could not release the lock it holds: %s", op.Actor, reply)
				}
				p.holds = false
			case "journal":
				if !p.holds {
					continue
				}
				seq++
				if reply, err := p.send(fmt.Sprintf("journal %s %s-%d", journal, op.Actor, seq)); err != nil || reply != "journaled" {
					s.Violate("C28", "helper-died", "journal", "%s: %v %s", op.Actor, err, reply)
					return
				}
			case "gc":
				if reply, err := p.send("gc"); err != nil || reply != "collected" {
					s.Violate("C28", "helper-died", "gc", "%s: %v %s", op.Actor, err, reply)
					return
				}
				s.Logf(op.Actor, "garbage collection")
				s.Count("fault.garbage_collection", 1)
			case "kill":
				p.cmd.Process.Signal(syscall.SIGKILL)
				reap(p)
				s.Logf(op.Actor, "killed")
				s.Count("fault.process_kill", 1)
			case "exit":
				p.send("exit")
				reap(p)
				s.Logf(op.Actor, "exited")
				s.Count("probe.process_exit", 1)
			}
		}
		// Journal records never interleave.
		if data, err := os.ReadFile(journal); err == nil {
			lines := strings.Split(strings.TrimSpace(string(data)), "\n")
			for i := 0; i+1 < len(lines); i += 2 {
				a, b := strings.Fields(lines[i]), strings.Fields(lines[i+1])
				if len(a) != 2 || len(b) != 2 || a[0] != "begin" || b[0] != "end" || a[1] != b[1] {
					s.Violate("C28", "journal-interleaved", "journal", "records interleave at line %d: %q / %q", i, lines[i], lines[i+1])
					break
				}
			}
		}
	})
	res.NonTrivial = res.Counters["probe.acquired"] >= 1
	res.Fingerprint = simkit.Digest(res.JournalHash)
	return res
}
