package syncsim

import (
	"bytes"
	"context"
	"crypto/sha1"
	"errors"
	"fmt"
	"os"
	"path/filepath"
	"regexp"
	"sort"
	"strconv"
	"strings"
	"sync"
	"time"
	"unsafe"

	"golang.org/x/sys/unix"
	"google.golang.org/protobuf/proto"

	"github.com/mutagen-io/mutagen/pkg/filesystem"
	"github.com/mutagen-io/mutagen/pkg/logging"
	"github.com/mutagen-io/mutagen/pkg/synchronization"
	"github.com/mutagen-io/mutagen/pkg/synchronization/core"
	"github.com/mutagen-io/mutagen/pkg/synchronization/core/ignore"
	"github.com/mutagen-io/mutagen/pkg/synchronization/endpoint/local"
	"github.com/mutagen-io/mutagen/pkg/synchronization/endpoint/remote"
	"github.com/mutagen-io/mutagen/pkg/synchronization/rsync"
	urlpkg "github.com/mutagen-io/mutagen/pkg/url"

	"verif/simkit"
)

const temporaryPrefix = ".mutagen-temporary-"

// diskState is the simulated "disk side" of the disk scenarios: two real roots
// on tmpfs, a canary directory outside them, the syscall hook and the user.
type diskState struct {
	h      *harness
	base   string
	roots  map[string]string
	canary string

	mu             sync.Mutex
	stamp          int64            // base of the modification time counter (seconds)
	stampNanos     int64            // strictly increasing offset in nanoseconds
	backNanos      int64            // strictly increasing offset below the base, for backdated files
	userEdit       map[string]int64 // side:path -> sequence number of the last user edit
	lastSnap       map[string]*core.Entry
	scanStart      map[string]int64
	transStart     map[string]int64
	gated          map[string]bool  // activities whose syscalls park at gates
	freshAt        map[string]int64 // side -> sequence at which a returned snapshot equalled the disk (0: last one did not); under h.mu
	transEnd       map[string]int64 // side -> sequence at which the last transition returned; under h.mu
	canaryHash     string
	staging        string
	midcycle       *midcycleEvent            // under mu
	mounts         map[string]string         // side -> mount point of its own small tmpfs (a separate device), if any
	curTransitions map[string][]*core.Change // side -> the transitions of the Transition call in progress (under mu)
	raceLost       map[string]bool           // contents destroyed inside a transition's documented check-then-act window
	values         map[string]userValue      // sha1 (hex) of every content the user ever wrote -> where and when last
	canaryMu       sync.Mutex
	inotify        int              // inotify descriptor watching the canary tree (-1: none)
	watches        map[int32]string // watch descriptor -> canary-relative directory
}

// userValue remembers where the simulated user last put a piece of content.
type userValue struct {
	side, path string
	seq        int64
}

// midcycleEvent is a user action that strikes just before the Nth hooked
// system call of one activity on one side, counted from when it was armed.
type midcycleEvent struct {
	side, activity string
	// path, if set, restricts the countdown to system calls on that path, its
	// ancestors or its descendants: which sibling operation comes first is the
	// runtime's choice (map iteration inside mutagen), the operations that
	// touch one path are not.
	path      string
	countdown int
	// afterOp, if set, replaces the countdown: the event strikes right after
	// that system call on exactly that path (before the activity's next call).
	afterOp string
	armed   bool
	fire    func()
}

var stackLabels = []simkit.StackLabel{
	{Substr: "(*endpoint).watchPoll", Label: "poll"},
	{Substr: "(*endpoint).Scan", Label: "scan"},
	{Substr: "(*endpoint).Transition", Label: "transition"},
	{Substr: "(*endpoint).Stage", Label: "stage"},
	{Substr: "rsync.Transmit", Label: "supply"},
	{Substr: "rsync.(*receiver)", Label: "receive"},
	{Substr: "(*endpoint).saveCache", Label: "cache"},
	{Substr: "(*endpoint).Shutdown", Label: "shutdown"},
	{Substr: "local.NewEndpoint", Label: "init"},
}

func (h *harness) setupDisk() error {
	base, err := simkit.MkdirTemp(scratchParent(), "verif-syncsim-")
	if err != nil {
		return err
	}
	d := &diskState{h: h, base: base, roots: map[string]string{"alpha": filepath.Join(base, "alpha"), "beta": filepath.Join(base, "beta"), "gamma": filepath.Join(base, "gamma")},
		canary: filepath.Join(base, "canary"), stamp: 1_000_000_000, userEdit: map[string]int64{}, lastSnap: map[string]*core.Entry{},
		scanStart: map[string]int64{}, transStart: map[string]int64{}, gated: map[string]bool{}, freshAt: map[string]int64{}, transEnd: map[string]int64{}}
	// A root on its own small filesystem: a real second device (staging in the
	// data directory then crosses devices: genuine EXDEV on every rename into the
	// root) that can genuinely fill up (ENOSPC from the kernel, partial writes).
	d.mounts = map[string]string{}
	if kb := h.plan.C("dev_kb"); kb > 0 {
		for i, side := range []string{"alpha", "beta"} {
			if h.plan.C("dev_side")&(1<<i) == 0 {
				continue
			}
			mp := filepath.Join(base, "dev-"+side)
			if err := os.Mkdir(mp, 0o755); err != nil {
				return err
			}
			if err := unix.Mount("tmpfs", mp, "tmpfs", 0, fmt.Sprintf("size=%dk,mode=0755", kb)); err != nil {
				// No mount privilege here: the run proceeds on the shared device
				// and the gap is visible in the evidence counters.
				h.s.Count("probe.device_mount_unavailable", 1)
				os.Remove(mp)
				continue
			}
			h.s.Count("probe.device_mounts", 1)
			d.mounts[side] = mp
			d.roots[side] = filepath.Join(mp, "root")
		}
	}
	for _, r := range d.roots {
		if err := os.Mkdir(r, 0o755); err != nil {
			return err
		}
	}
	// The canary mirrors in-root names two directory levels deep, so that a
	// path crossing a planted link keeps resolving inside it.
	os.Mkdir(d.canary, 0o755)
	for _, x := range []string{"a", "b", "c"} {
		os.Mkdir(filepath.Join(d.canary, x), 0o755)
		for _, y := range []string{"a", "b", "c"} {
			os.Mkdir(filepath.Join(d.canary, x, y), 0o755)
			os.WriteFile(filepath.Join(d.canary, x, y, "f"), []byte("canary-"+x+y), 0o644)
		}
		os.WriteFile(filepath.Join(d.canary, x, "d"), []byte("canary-"+x+"-d"), 0o644)
	}
	os.WriteFile(filepath.Join(d.canary, "d"), []byte("canary-d"), 0o644)
	d.canaryHash = d.hashTree(d.canary)
	d.watchCanary()
	g := h.plan.C("fs_gates")
	for i, act := range []string{"scan", "transition", "stage", "supply", "receive", "poll"} {
		if g&(1<<i) != 0 {
			d.gated[act] = true
		}
	}
	h.disk = d
	filesystem.VerifSyscallHook = d.hook
	return nil
}

// scratchParent is where per-run scratch trees go: the orchestrator's job
// directory when there is one (it unmounts and removes everything beneath it when
// the check ends, also after a worker was killed), /dev/shm otherwise.
func scratchParent() string {
	if d := os.Getenv("MUTAGEN_DATA_DIRECTORY"); d != "" {
		if p := filepath.Dir(d); strings.HasPrefix(p, "/dev/shm/verif-check-") {
			return p
		}
	}
	return "/dev/shm"
}

func setHook(f func(op string, dirfd int, path string, dirfd2 int, path2 string) error) {
	filesystem.VerifSyscallHook = f
}

func (h *harness) teardownDisk() {
	filesystem.VerifSyscallHook = nil
	if h.disk != nil {
		if h.disk.inotify >= 0 {
			unix.Close(h.disk.inotify)
		}
		for _, mp := range h.disk.mounts {
			unix.Unmount(mp, unix.MNT_DETACH)
		}
		rmAll(h.disk.base)
	}
}

func (d *diskState) configure(c *synchronization.Configuration) {
	c.WatchMode = synchronization.WatchMode_WatchModeForcePoll
	c.WatchPollingInterval = 1
	c.Ignores = []string{"*.ign"}
	if d.h.plan.C("docker_ignores") == 1 {
		// Docker-style syntax: an ignored directory with an exception deep
		// inside it (which is never created: nothing beneath "ig" is ever
		// synchronized), so that the directory is traversed under an ignore mask.
		c.IgnoreSyntax = ignore.Syntax_SyntaxDocker
		c.Ignores = []string{"*.ign", "**/*.ign", "ig", "!ig/a/b/keep"}
	}
	if d.h.plan.C("docker_ignores") == 2 {
		// An ignored directory below a tracked one, with an exception that does
		// get created, synchronized and removed again (C04: the directory goes
		// from phantom to tracked and stays tracked through the ancestor).
		c.IgnoreSyntax = ignore.Syntax_SyntaxDocker
		c.Ignores = []string{"*.ign", "**/*.ign", "a/gen", "!a/gen/keep"}
	}
	if d.h.plan.C("internal_staging") == 1 {
		c.StageMode = synchronization.StageMode_StageModeInternal
	}
	if m := d.h.plan.C("max_entries"); m > 0 {
		c.MaximumEntryCount = uint64(m)
	}
}

// ------------------------------------------------------------------ the hook

// resolve turns (dirfd, path) into an absolute path without following the
// final component.
func resolveFD(fd int) string {
	if fd == unix.AT_FDCWD {
		return ""
	}
	p, err := os.Readlink(fmt.Sprintf("/proc/self/fd/%d", fd))
	if err != nil {
		return fmt.Sprintf("<fd %d: %v>", fd, err)
	}
	return strings.TrimSuffix(p, " (deleted)")
}

func joinFD(fd int, path string) string {
	if path == "" {
		return resolveFD(fd)
	}
	if filepath.IsAbs(path) || fd == unix.AT_FDCWD {
		return path
	}
	return filepath.Join(resolveFD(fd), path)
}

// classify returns the side ("alpha"/"beta") and root-relative path of an
// absolute path, or "" when it lies outside both roots.
func (d *diskState) classify(abs string) (side, rel string) {
	for _, s := range []string{"alpha", "beta", "gamma"} {
		r := d.roots[s]
		if abs == r {
			return s, ""
		}
		if strings.HasPrefix(abs, r+"/") {
			return s, abs[len(r)+1:]
		}
	}
	return "", ""
}

func maskTemp(rel string) string {
	if i := strings.Index(rel, temporaryPrefix); i >= 0 {
		j := strings.IndexByte(rel[i:], '/')
		if j < 0 {
			return rel[:i] + temporaryPrefix + "*"
		}
		// Names inside a temporary directory carry random suffixes as well
		// (the staging store's "storage<number>" files).
		return rel[:i] + temporaryPrefix + "*" + randomDigits.ReplaceAllString(rel[i+j:], "*")
	}
	return rel
}

// randomDigits matches what the runtime draws at random in file names: the
// numeric suffixes of temporaries and session identifiers.
var randomDigits = regexp.MustCompile(`sync_[0-9A-Za-z]{20,}|[0-9]{4,}`)

// stableHash mixes stable identifiers only (never pointers, descriptors or
// arrival order), for choices that must not depend on the order in which the
// runtime's map iteration makes mutagen issue sibling operations.
func stableHash(salt int64, parts ...string) uint64 {
	h := uint64(salt)*0x9e3779b97f4a7c15 + 0x85ebca6b
	for _, p := range parts {
		for i := 0; i < len(p); i++ {
			h = (h ^ uint64(p[i])) * 0x100000001b3
		}
		h = (h ^ 0xff) * 0x100000001b3
	}
	h ^= h >> 29
	h *= 0xbf58476d1ce4e5b9
	h ^= h >> 32
	return h
}

var errnos = map[int64]error{1: unix.EIO, 2: unix.EACCES, 3: unix.ENOSPC, 4: unix.ENOENT, 5: unix.EXDEV, 6: unix.ENOTEMPTY, 7: unix.EEXIST, 8: unix.EINTR}

func (d *diskState) hook(op string, dirfd int, path string, dirfd2 int, path2 string) error {
	s := d.h.s
	if s.Crashed() {
		// The daemon is dead: none of its system calls happens any more.
		s.ParkForever()
	}
	if s.PassThrough() {
		return nil
	}
	abs := joinFD(dirfd, path)
	if op == "read" || op == "fstat" || op == "fchmod" || op == "readdir" {
		abs = resolveFD(dirfd)
	}
	side, rel := d.classify(abs)
	var abs2, side2, rel2 string
	if op == "renameat" || op == "renameat2" {
		abs2 = joinFD(dirfd2, path2)
		side2, rel2 = d.classify(abs2)
	}
	// C17: nothing mutagen touches on behalf of a root may resolve into the
	// canary (which is only reachable through symbolic links planted in a root).
	for _, a := range []string{abs, abs2} {
		if a != "" && (a == d.canary || strings.HasPrefix(a, d.canary+"/")) {
			s.Violate("C17", "escaped-root", op, "%s on %q: the operation resolves into the canary directory outside both roots", op, a)
		}
	}
	if side == "" && side2 == "" {
		// Data directory, staging area, probes elsewhere: never gated. A crash
		// can still be placed right after one of the renames there (the commit
		// point of a staged file).
		d.crashBefore(op, "data", filepath.Base(abs))
		if op == "renameat" || op == "renameat2" {
			d.crashAfterRename(op, dirfd, path, dirfd2, path2, "data", filepath.Base(abs2))
		}
		return nil
	}
	activity := simkit.LabelFromStack(stackLabels)
	if activity == "" {
		activity = "other"
	}
	gateSide, gateRel := side, rel
	if gateSide == "" {
		gateSide, gateRel = side2, rel2
	}
	key := fmt.Sprintf("%s.%s.%s", gateSide, activity, op)
	s.Count("probe.fs_ops."+activity, 1)
	if d.gated[activity] {
		s.Gate("fs."+gateSide+"."+activity, op+" "+maskTemp(gateRel))
	}
	// A user modification placed at an exact point inside a mutagen activity:
	// just before the Nth hooked system call of that activity on that side.
	d.h.mu.Lock()
	settling := d.h.settling
	d.h.mu.Unlock()
	// A root event armed to strike in the middle of a cycle (C11).
	d.mu.Lock()
	if m := d.midcycle; m != nil && m.afterOp != "" && m.side == gateSide && m.activity == activity {
		// "right after that system call on exactly that path": armed by the
		// call itself, struck before the next hooked call of the activity.
		if m.armed {
			d.midcycle = nil
			d.mu.Unlock()
			m.fire()
			d.mu.Lock()
		} else if op == m.afterOp && maskTemp(gateRel) == m.path {
			m.armed = true
		}
	} else if m != nil && m.side == gateSide && m.activity == activity && (m.path == "" || pathRelated(m.path, maskTemp(gateRel))) {
		m.countdown--
		if m.countdown <= 0 {
			d.midcycle = nil
			d.mu.Unlock()
			m.fire()
			d.mu.Lock()
		}
	}
	d.mu.Unlock()
	if !settling {
		// A user action placed inside a mutagen activity: just before the Nth
		// hooked system call of that activity on the action's own path, an
		// ancestor or a descendant of it (counted per path: stable whatever the
		// order of sibling operations).
		for _, f := range s.FaultsOfKind("fs_user") {
			if f.Key != gateSide+"."+activity {
				continue
			}
			kind, rel, ok := strings.Cut(f.S, ":")
			if !ok || !pathRelated(rel, maskTemp(gateRel)) {
				continue
			}
			if n := s.Occur(f.Key + "~" + f.S); n == f.Nth && !s.FaultsStopped() {
				s.Count("fault.fs_user", 1)
				s.Count("fault.fs_user."+kind, 1)
				s.Logf("fault", "user %s %q strikes inside %s.%s (before system call %d near that path)", kind, rel, gateSide, activity, n)
				d.userOp(simkit.Op{Actor: "user", Kind: kind, N: []int64{f.Arg, 0}, S: []string{gateSide, rel, "a"}})
			}
		}
	}
	if op == "renameat" || (op == "renameat2" && d.h.plan.C("no_renameat2") != 1) {
		d.crashAfterRename(op, dirfd, path, dirfd2, path2, gateSide, maskTemp(rel2))
	}
	// A filesystem without RENAME_NOREPLACE (NFS, many FUSE filesystems): every
	// renameat2 answers "not supported" for the whole run, so mutagen takes its
	// probe-then-rename fallback. This is a property of the environment, not a
	// fault: nothing is relaxed for it.
	if op == "renameat2" && d.h.plan.C("no_renameat2") == 1 {
		s.Count("probe.renameat2_unsupported", 1)
		return unix.ENOTSUP
	}
	// Fault injection keyed by (side, activity, operation), Nth occurrence.
	n := s.Occur(key)
	f := s.MatchFault("fs_errno", key, n)
	if f != nil && strings.HasPrefix(f.S, "r") {
		f = nil // a rate rule, decided below
	}
	if f == nil && !s.FaultsStopped() {
		// Rate rules: whether this operation fails is a pure function of the
		// rule's salt, the masked path and how often this very (operation, path)
		// pair has occurred - not of how many sibling operations came first.
		for _, r := range s.FaultsOfKind("fs_errno") {
			if r.Key != key || !strings.HasPrefix(r.S, "r") {
				continue
			}
			rate, _ := strconv.Atoi(r.S[1:])
			mp := maskTemp(gateRel)
			k := s.Occur(key + "@" + mp)
			if rate > 0 && stableHash(int64(r.Nth), key, mp, strconv.Itoa(k))%uint64(rate) == 0 {
				r := r
				f = &r
				s.Count("fault.fs_errno", 1)
				break
			}
		}
	}
	if f != nil {
		if e, ok := errnos[f.Arg]; ok {
			d.h.mu.Lock()
			d.h.ideal = false
			d.h.cycleClean = false
			d.h.mu.Unlock()
			s.Logf("fs."+gateSide, "%s %q fails with %v (injected)", op, maskTemp(gateRel), e)
			return e
		}
	}
	// Destructive operations issued while applying transitions.
	if activity == "transition" {
		switch op {
		case "unlinkat":
			d.onDestroy(side, rel, op)
		case "renameat", "renameat2":
			// renameat2 is only ever issued with RENAME_NOREPLACE: it fails
			// instead of replacing, so only plain renameat destroys its target.
			if side2 != "" && op == "renameat" {
				d.onDestroy(side2, rel2, op)
			}
			if side != "" && side2 == "" {
				s.Violate("C17", "moved-out-of-root", op, "rename moves %q out of the %s root to %q", rel, side, abs2)
			}
		}
	}
	if d.h.oneWay() && (side == "alpha" || side2 == "alpha") {
		switch op {
		case "unlinkat", "renameat", "renameat2", "mkdirat", "symlinkat", "fchmod", "fchmodat", "fchownat":
			if !strings.Contains(rel, temporaryPrefix) && !strings.Contains(rel2, temporaryPrefix) {
				s.Violate("C02", "alpha-modified", "syscall:"+op, "%s on alpha path %q in mode %v (activity %s)", op, rel+rel2, d.h.mode, activity)
			}
		}
	}
	return nil
}

// crashBefore implements the fault kind crash_before for operations that are
// never gated (data directory): the daemon dies just before this system call.
func (d *diskState) crashBefore(op, where, target string) {
	s := d.h.s
	if s.FaultsStopped() || s.Crashed() {
		return
	}
	target = randomDigits.ReplaceAllString(target, "*")
	for _, f := range s.FaultsOfKind("crash_before") {
		if f.Key != where {
			continue
		}
		rate, _ := strconv.Atoi(strings.TrimPrefix(f.S, "r"))
		k := s.Occur("crash_before@" + where + "@" + op + "@" + target)
		if rate > 0 && stableHash(int64(f.Nth), where, op, target, strconv.Itoa(k))%uint64(rate) == 0 {
			s.Logf("fault", "the daemon dies just before %s %q (%s)", op, target, where) // (target is masked above)
			s.Count("fault.crash_before_syscall", 1)
			s.Crash()
			s.ParkForever()
		}
	}
}

// crashAfterRename implements the fault kind crash_after: the daemon dies right
// after a rename has taken effect and before it executes another instruction
// (the hook only sees operations before they happen, so it performs this one
// itself and never returns to the caller). Renames are the commit points of
// staged files, of files moved into a root and of atomic replacements; whatever
// the code meant to do after one - flush a buffer, fix permissions, record a
// result - does not happen.
func (d *diskState) crashAfterRename(op string, dirfd int, path string, dirfd2 int, path2 string, where, target string) {
	s := d.h.s
	if s.FaultsStopped() || s.Crashed() {
		return
	}
	for _, f := range s.FaultsOfKind("crash_after") {
		if f.Key != where && f.Key != "any" {
			continue
		}
		rate, _ := strconv.Atoi(strings.TrimPrefix(f.S, "r"))
		k := s.Occur("crash_after@" + where + "@" + randomDigits.ReplaceAllString(target, "*"))
		if rate <= 0 || stableHash(int64(f.Nth), where, randomDigits.ReplaceAllString(target, "*"), strconv.Itoa(k))%uint64(rate) != 0 {
			continue
		}
		var err error
		if op == "renameat2" {
			err = unix.Renameat2(dirfd, path, dirfd2, path2, unix.RENAME_NOREPLACE)
		} else {
			err = unix.Renameat(dirfd, path, dirfd2, path2)
		}
		if err != nil {
			return // it would have failed: let the real call report that
		}
		s.Logf("fault", "the daemon dies right after %s -> %q (%s) took effect", op, randomDigits.ReplaceAllString(target, "*"), where)
		s.Count("fault.crash_after_rename", 1)
		s.Crash()
		s.ParkForever()
	}
}

// entryAt describes what is on disk at an absolute path right now.
func (d *diskState) entryAt(abs, rel string) *core.Entry {
	// Never through a link: when the user has swapped a parent for a symbolic
	// link, mutagen's descriptor-relative operation acts on the detached old
	// directory, and nothing at the lexical path is affected (following the
	// link here would make the harness itself the one that leaves the root).
	for _, side := range []string{"alpha", "beta", "gamma"} {
		if root := d.roots[side]; strings.HasPrefix(abs, root+"/") && !parentsAreDirs(root, rel) {
			return nil
		}
	}
	return d.walk(abs, rel, false)
}

// onDestroy is called before mutagen removes or replaces root content.
func (d *diskState) onDestroy(side, rel, op string) {
	if strings.Contains(rel, temporaryPrefix) {
		return
	}
	h := d.h
	abs := filepath.Join(d.roots[side], rel)
	cur := d.entryAt(abs, rel)
	if cur == nil {
		return
	}
	h.s.Count("probe.destructive_ops", 1)
	d.mu.Lock()
	tstart := d.transStart[side]
	var lastEdit int64
	for k, v := range d.userEdit {
		if strings.HasPrefix(k, side+":") {
			p := k[len(side)+1:]
			if pathRelated(p, rel) && v > lastEdit {
				lastEdit = v
			}
		}
	}
	snap := d.lastSnap[side]
	plan := d.curTransitions[side]
	d.mu.Unlock()
	// A planned creation (nothing recorded at that path) never replaces
	// anything: it is placed with a rename that fails if the name exists, so
	// there is no check-then-act window to excuse - unless the filesystem
	// lacks that primitive and mutagen falls back to probing first, which its
	// source documents as racy.
	creation := false
	for _, t := range plan {
		if pathWithin(rel, t.Path) {
			sub := strings.TrimPrefix(strings.TrimPrefix(rel, t.Path), "/")
			creation = lookup(t.Old, sub) == nil
			break
		}
	}
	if creation && h.plan.C("no_renameat2") != 1 && lastEdit > tstart && tstart > 0 && !unsyncKind(cur.Kind) && cur.Kind != core.EntryKind_Directory {
		h.s.Count("probe.creation_collision_destroyed", 1)
		h.s.Violate("C08", "creation-replaced-content", op, "%s at %q on %s is a planned creation (the scan recorded nothing there) and it replaces %s, which appeared after the scan", op, rel, side, render(cur))
		if h.mode == core.SynchronizationMode_SynchronizationModeTwoWaySafe {
			h.s.Violate("C01", "creation-replaced-content", "syscall:"+side, "two-way-safe: the creation planned at %q on %s replaces %s, content that was never synchronized (it appeared after the scan), without any conflict", rel, side, render(cur))
		}
		return
	}
	if lastEdit > tstart && tstart > 0 {
		// The user touched this path after the transition began: mutagen's
		// check-then-act window is documented as unavoidable.
		h.s.Count("probe.destroy_in_race_window", 1)
		// (What is lost in that window is lost by a documented race, not by a
		// decision of the synchronization algorithm: the conservation rule at
		// rest does not count it.)
		d.mu.Lock()
		if d.raceLost == nil {
			d.raceLost = map[string]bool{}
		}
		walk(cur, rel, func(_ string, e *core.Entry) {
			if e.Kind == core.EntryKind_File {
				d.raceLost[string(e.Digest)] = true
			}
		})
		d.mu.Unlock()
		return
	}
	if cur.Kind == core.EntryKind_Directory {
		if len(cur.Contents) > 0 && op == "unlinkat" {
			// rmdir of a non-empty directory fails in the kernel; nothing is lost.
			return
		}
		return
	}
	if unsyncKind(cur.Kind) {
		h.s.Violate("C03", "untracked-destroyed", op, "%s removes or replaces untracked/problematic content at %q on %s", op, rel, side)
		return
	}
	// C08: the content must be what the scan of this cycle recorded.
	if seen := lookup(snap, rel); !shallowEqual(seen, cur) {
		h.s.Violate("C08", "modified-after-scan-destroyed", op, "%s at %q on %s destroys %s, but the preceding scan recorded %s there (changed between scan and transition)", op, rel, side, render(cur), render(seen))
	}
	// C01/C02: on a protected side it must also equal the saved archive.
	protected := false
	switch h.mode {
	case core.SynchronizationMode_SynchronizationModeTwoWaySafe:
		protected = true
	case core.SynchronizationMode_SynchronizationModeTwoWayResolved:
		protected = side == "alpha"
	case core.SynchronizationMode_SynchronizationModeOneWaySafe:
		protected = side == "beta"
	}
	if protected {
		anc, err := h.loadArchive()
		if err == nil {
			if arch := lookup(anc, rel); !shallowEqual(arch, cur) {
				prop := "C01"
				if h.mode != core.SynchronizationMode_SynchronizationModeTwoWaySafe {
					prop = "C02"
				}
				h.s.Violate(prop, "modified-content-destroyed", "syscall:"+side, "mode %v: %s at %q on %s destroys %s, which differs from the last synchronized state %s", h.mode, op, rel, side, render(cur), render(arch))
			}
		}
	}
}

// ---------------------------------------------------------------- the walker

// portableTarget is the harness's own reading of "portable symbolic link":
// relative, short, without colon or backslash, and lexically (POSIX: empty
// and "." components are no-ops) never above the root.
func portableTarget(linkPath, target string) bool {
	if target == "" || len(target) > 247 || strings.ContainsAny(target, ":\\") || target[0] == '/' {
		return false
	}
	depth := strings.Count(linkPath, "/")
	for _, c := range strings.Split(target, "/") {
		switch c {
		case "", ".":
		case "..":
			depth--
		default:
			depth++
		}
		if depth < 0 {
			return false
		}
	}
	return true
}

func whyNotPortable(linkPath, target string) string {
	switch {
	case target == "":
		return "empty"
	case len(target) > 247:
		return "too long"
	case strings.ContainsAny(target, ":\\"):
		return "colon or backslash"
	case target[0] == '/':
		return "absolute"
	}
	return "resolves above the root"
}

// walk is the independent reference scan.
func (d *diskState) walk(abs, rel string, top bool) *core.Entry {
	st, err := os.Lstat(abs)
	if err != nil {
		return nil
	}
	if strings.HasPrefix(rel, "a/gen/") && rel != "a/gen/keep" && d.h.plan.C("docker_ignores") == 2 {
		return &core.Entry{Kind: core.EntryKind_Untracked}
	}
	if (rel == "ig" || strings.HasPrefix(rel, "ig/")) && d.h.plan.C("docker_ignores") == 1 {
		// Ignored wholesale (the harness's own reading of the two patterns).
		return &core.Entry{Kind: core.EntryKind_Untracked}
	}
	switch {
	case st.Mode().IsDir():
		e := dirEntry()
		names, _ := os.ReadDir(abs)
		for _, n := range names {
			if strings.HasPrefix(n.Name(), temporaryPrefix) {
				continue
			}
			childRel := n.Name()
			if rel != "" {
				childRel = rel + "/" + n.Name()
			}
			if ch := d.walk(filepath.Join(abs, n.Name()), childRel, false); ch != nil {
				e.Contents[n.Name()] = ch
			}
		}
		return e
	case st.Mode().IsRegular():
		if strings.HasSuffix(abs, ".ign") {
			return &core.Entry{Kind: core.EntryKind_Untracked}
		}
		data, err := os.ReadFile(abs)
		if err != nil {
			return &core.Entry{Kind: core.EntryKind_Problematic, Problem: "unreadable"}
		}
		sum := sha1.Sum(data)
		return &core.Entry{Kind: core.EntryKind_File, Digest: sum[:], Executable: st.Mode()&0o111 != 0}
	case st.Mode()&os.ModeSymlink != 0:
		target, err := os.Readlink(abs)
		if err != nil || !portableTarget(rel, target) {
			return &core.Entry{Kind: core.EntryKind_Problematic, Problem: "invalid symbolic link"}
		}
		return &core.Entry{Kind: core.EntryKind_SymbolicLink, Target: target}
	default:
		return &core.Entry{Kind: core.EntryKind_Untracked}
	}
}

func (d *diskState) walkTree(side string) *core.Entry {
	return d.walk(d.roots[side], "", true)
}

func (d *diskState) hashTree(dir string) string {
	var b strings.Builder
	filepath.Walk(dir, func(p string, info os.FileInfo, err error) error {
		if err != nil {
			return nil
		}
		fmt.Fprintf(&b, "%s|%v|%d|", p, info.Mode(), info.Size())
		if info.Mode().IsRegular() {
			data, _ := os.ReadFile(p)
			b.Write(data)
		}
		b.WriteString("\n")
		return nil
	})
	return simkit.Digest(b.String())
}

// ------------------------------------------------------------------ the user

// touch stamps a strictly increasing modification time. Increments are below
// one second most of the time, so that successive edits of one file often fall
// into the same wall-clock second (only the nanoseconds differ).
func (d *diskState) touch(abs string) {
	d.stampNanos += 300_000_007
	if d.stampNanos%7 == 0 {
		d.stampNanos += 2_000_000_000
	}
	t := time.Unix(d.stamp, d.stampNanos)
	os.Chtimes(abs, t, t)
}

func (d *diskState) recordEdit(side, rel string) {
	d.h.mu.Lock()
	seq := d.h.next()
	d.h.userSeq[side] = seq
	d.h.mu.Unlock()
	d.mu.Lock()
	d.userEdit[side+":"+rel] = seq
	d.mu.Unlock()
}

// recordValues notes the content of every regular file at or below a path the
// user just wrote (read back from the disk: a write into a full device leaves
// what it leaves), so that every byte in a root is attributable to the user.
// before is what the reference walk saw at rel just before the operation: a
// file that holds the same bytes and the same executable bit as before (two
// writes into a full device both end up empty; a copy lands on an identical
// copy) has not been modified - a scan cannot and need not tell it from
// untouched content - and is not recorded as a new value of the user's. The
// same goes for a file that is put back exactly as the saved archive records
// it at that path (deleted and written again into the full device): that is
// the last synchronized state itself, "unchanged since the last successful
// synchronization" in the words of C01.
func (d *diskState) recordValues(side, rel string, before *core.Entry) {
	var archive *core.Entry
	archiveLoaded := false
	archived := func(r string) *core.Entry {
		if !archiveLoaded {
			archiveLoaded = true
			if before != nil || rel != "" {
				archive, _ = d.h.loadArchive()
			}
		}
		return lookup(archive, r)
	}
	root := d.roots[side]
	if rel != "" && !parentsAreDirs(root, rel) {
		return
	}
	d.mu.Lock()
	seq := d.userEdit[side+":"+rel]
	d.mu.Unlock()
	var visit func(abs, r string)
	visit = func(abs, r string) {
		st, err := os.Lstat(abs)
		if err != nil {
			return
		}
		switch {
		case st.IsDir():
			names, _ := os.ReadDir(abs)
			for _, n := range names {
				child := n.Name()
				if r != "" {
					child = r + "/" + n.Name()
				}
				visit(filepath.Join(abs, n.Name()), child)
			}
		case st.Mode().IsRegular():
			if data, err := os.ReadFile(abs); err == nil {
				sum := sha1.Sum(data)
				same := func(e *core.Entry) bool {
					return e != nil && e.Kind == core.EntryKind_File && bytes.Equal(e.Digest, sum[:]) && e.Executable == (st.Mode()&0o111 != 0)
				}
				if same(lookup(before, strings.TrimPrefix(strings.TrimPrefix(r, rel), "/"))) {
					d.h.s.Count("probe.user_rewrote_identical_content", 1)
					return
				}
				if same(archived(r)) {
					d.h.s.Count("probe.user_restored_archived_content", 1)
					return
				}
				d.mu.Lock()
				if d.values == nil {
					d.values = map[string]userValue{}
				}
				d.values[string(sum[:])] = userValue{side, r, seq}
				d.mu.Unlock()
			}
		}
	}
	visit(filepath.Join(root, rel), rel)
}

// clearPath makes room for a new entry at abs: parents become directories,
// whatever is at abs is removed.
func (d *diskState) clearPath(root, rel string) {
	comps := strings.Split(rel, "/")
	cur := root
	if st, err := os.Lstat(root); err != nil || !st.IsDir() {
		rmAll(root)
		os.Mkdir(root, 0o755)
	}
	for _, c := range comps[:len(comps)-1] {
		cur = filepath.Join(cur, c)
		if st, err := os.Lstat(cur); err != nil || !st.IsDir() {
			rmAll(cur)
			os.Mkdir(cur, 0o755)
			d.touch(cur)
		}
	}
	rmAll(filepath.Join(root, rel))
}

// parentsAreDirs reports whether every proper prefix of rel is a real
// directory (the user never acts through a symbolic link itself).
func parentsAreDirs(root, rel string) bool {
	cur := root
	comps := strings.Split(rel, "/")
	for _, c := range comps[:len(comps)-1] {
		cur = filepath.Join(cur, c)
		if st, err := os.Lstat(cur); err != nil || !st.IsDir() {
			return false
		}
	}
	st, err := os.Lstat(root)
	return err == nil && st.IsDir()
}

func (d *diskState) userOp(op simkit.Op) {
	side, rel := op.Str(0), op.Str(1)
	root := d.roots[side]
	abs := filepath.Join(root, rel)
	switch op.Kind {
	case "edit", "del", "chmod":
		if rel != "" && !parentsAreDirs(root, rel) {
			return
		}
	}
	// (what the written path holds just before the operation: see recordValues)
	var before *core.Entry
	switch op.Kind {
	case "put", "putbig", "edit":
		if rel != "" {
			before = d.entryAt(abs, rel)
		}
	case "cp", "mv":
		if to := op.Str(2); to != "" {
			before = d.entryAt(filepath.Join(root, to), to)
		}
	}
	switch op.Kind {
	case "put":
		d.clearPath(root, rel)
		mode := os.FileMode(0o644)
		if op.Int(1) == 1 {
			mode = 0o755
		}
		os.WriteFile(abs, []byte(fmt.Sprintf("content-%d", op.Int(0))), mode)
		os.Chmod(abs, mode)
		d.touch(abs)
	case "putbig":
		// A file whose size is chosen by the plan (rsync blocks, large data).
		d.clearPath(root, rel)
		mode := os.FileMode(0o644)
		if op.Int(1) == 1 {
			mode = 0o755
		}
		data := simkit.NewRand(uint64(op.Int(0)), 77).Bytes(int(op.Int(2)), 4)
		os.WriteFile(abs, append([]byte(fmt.Sprintf("content-%d:", op.Int(0))), data...), mode)
		os.Chmod(abs, mode)
		d.touch(abs)
	case "edit":
		// In-place content edit of an existing file (same inode).
		if st, err := os.Lstat(abs); err == nil && st.Mode().IsRegular() && op.Int(1) == 2 {
			// Replaced the way rsync -t or a restore tool does it: a new file
			// (another inode) with other content of the same size is renamed over
			// the old one and given the old one's times and mode. Only the
			// inode and the content tell the two apart.
			tmp := abs + ".user-tmp"
			os.WriteFile(tmp, []byte(fmt.Sprintf("content-%d", op.Int(0))), st.Mode().Perm())
			os.Chmod(tmp, st.Mode().Perm())
			os.Chtimes(tmp, st.ModTime(), st.ModTime())
			os.Rename(tmp, abs)
			d.h.s.Count("probe.user_replaced_keeping_times", 1)
		} else if err == nil && st.Mode().IsRegular() {
			os.WriteFile(abs, []byte(fmt.Sprintf("content-%d", op.Int(0))), st.Mode().Perm())
			if op.Int(1) == 1 {
				// ... restored with an older modification time (cp -p, tar x,
				// rsync -t, a clock stepped back): strictly decreasing stamps
				// before every forward one, so each is still unique.
				d.backNanos += 700_000_011
				t := time.Unix(d.stamp, -d.backNanos)
				os.Chtimes(abs, t, t)
			} else {
				d.touch(abs)
			}
		}
	case "mkdir":
		if st, err := os.Lstat(abs); err != nil || !st.IsDir() {
			d.clearPath(root, rel)
			os.Mkdir(abs, 0o755)
			d.touch(abs)
		}
	case "link":
		d.clearPath(root, rel)
		os.Symlink(op.Str(2), abs)
	case "untracked":
		d.clearPath(root, rel)
		mkSpecial(abs)
	case "ignored":
		d.clearPath(root, rel+".ign")
		os.WriteFile(abs+".ign", []byte(fmt.Sprintf("ignored-%d", op.Int(0))), 0o644)
		rel += ".ign"
	case "problem":
		d.clearPath(root, rel)
		os.Symlink("/nonexistent/absolute/target", abs)
	case "del":
		if rel != "" {
			rmAll(abs)
		}
	case "chmod":
		// chmod(2) leaves the modification time alone (only the change time
		// moves): the permission bits are the only trace of this edit.
		if st, err := os.Lstat(abs); err == nil && st.Mode().IsRegular() {
			os.Chmod(abs, st.Mode().Perm()^0o111)
		}
	case "rootdel":
		rmAll(root)
	case "rootfile":
		rmAll(root)
		os.WriteFile(root, []byte(fmt.Sprintf("content-%d", op.Int(0))), 0o644)
	case "rootempty":
		names, _ := os.ReadDir(root)
		for _, n := range names {
			rmAll(filepath.Join(root, n.Name()))
		}
	case "cp", "mv":
		// A copy or a rename within one root: the same content (and, for mv, the
		// same inode and modification time) shows up at another path.
		to := op.Str(2)
		if rel == "" || to == "" || pathRelated(rel, to) || !parentsAreDirs(root, rel) {
			return
		}
		if _, err := os.Lstat(abs); err != nil {
			return
		}
		d.clearPath(root, to)
		absTo := filepath.Join(root, to)
		if op.Kind == "mv" {
			os.Rename(abs, absTo)
		} else {
			copyTree(abs, absTo)
		}
		if parent := filepath.Dir(absTo); parent != root && strings.HasPrefix(parent, root) {
			d.touch(parent)
		}
		d.recordEdit(side, to)
	case "arm":
		// S: side, activity, kind, path; N: countdown, content id. A user action
		// that strikes just before the Nth hooked system call of that activity
		// on that side, counted from now.
		act, kind, path := op.Str(1), op.Str(2), op.Str(3)
		n, id := op.Int(0), op.Int(1)
		d.mu.Lock()
		d.midcycle = &midcycleEvent{side: side, activity: act, path: path, countdown: int(n), afterOp: op.Str(4), fire: func() {
			d.h.s.Count("fault.fs_user_armed."+kind, 1)
			d.userOp(simkit.Op{Actor: "user", Kind: kind, N: []int64{id, 0}, S: []string{side, path, "a"}})
		}}
		d.mu.Unlock()
		return
	case "fill":
		// Something else on the same device uses up its space (the file lies
		// beside the root, not in it), leaving N pages free.
		d.fill(side, op.Int(0))
		return
	case "unfill":
		d.unfill(side)
		return
	case "swaplink":
		// Replace a directory (or anything) by a symbolic link to the canary.
		d.clearPath(root, rel)
		os.Symlink(d.canary, abs)
	}
	if parent := filepath.Dir(abs); parent != root && strings.HasPrefix(parent, root) && rel != "" && parentsAreDirs(root, rel) {
		d.touch(parent)
	}
	d.recordEdit(side, rel)
	switch op.Kind {
	case "put", "putbig", "edit":
		// (only what this operation itself wrote: a regular file at that path)
		if st, err := os.Lstat(abs); err == nil && st.Mode().IsRegular() {
			d.recordValues(side, rel, before)
		}
	case "cp", "mv":
		d.recordValues(side, op.Str(2), before)
	}
	d.h.s.Logf("user", "%s %s %q -> %s", op.Kind, side, rel, render(d.walkTree(side)))
	d.h.s.Count("probe.user_edits", 1)
}

// fill consumes the free space of a side's own device except for `leave` pages.
func (d *diskState) fill(side string, leave int64) {
	mp := d.mounts[side]
	if mp == "" {
		return
	}
	var st unix.Statfs_t
	if unix.Statfs(mp, &st) != nil {
		return
	}
	n := int64(st.Bavail)*int64(st.Bsize) - leave*int64(st.Bsize)
	f, err := os.OpenFile(filepath.Join(mp, "fill.bin"), os.O_CREATE|os.O_WRONLY|os.O_APPEND, 0o600)
	if err != nil {
		return
	}
	if n > 0 {
		f.Write(make([]byte, n))
	}
	f.Close()
	d.h.s.Count("fault.disk_full", 1)
	d.h.s.Logf("user", "the device of %s fills up (%d pages left)", side, leave)
}

func (d *diskState) unfill(side string) {
	if mp := d.mounts[side]; mp != "" {
		if os.Remove(filepath.Join(mp, "fill.bin")) == nil {
			d.h.s.Logf("user", "space is freed on the device of %s", side)
		}
	}
}

func (d *diskState) mirror() {
	rmAll(d.roots["beta"])
	copyTree(d.roots["alpha"], d.roots["beta"])
	// (the user's doing: whatever beta held before is superseded)
	d.mu.Lock()
	d.values = nil
	d.mu.Unlock()
	d.recordEdit("beta", "")
	d.recordValues("alpha", "", nil)
	d.recordValues("beta", "", nil)
}

// mkSpecial creates an entry of an unsupported type: a UNIX socket file. (A
// FIFO would do as well, but opening a FIFO read-only blocks until a writer
// appears: when the user swaps a file for a FIFO between scan and staging, the
// real endpoint's Stage/scan open blocks forever in the kernel - observed, and
// recorded in DESIGN.md as an out-of-scope robustness finding. A goroutine
// stuck in a system call can never be seen as durably blocked by synctest.)
func mkSpecial(abs string) {
	fd, err := unix.Socket(unix.AF_UNIX, unix.SOCK_STREAM, 0)
	if err != nil {
		return
	}
	unix.Bind(fd, &unix.SockaddrUnix{Name: abs})
	unix.Close(fd)
}

// rmAll removes a tree without ever opening a non-directory (os.RemoveAll
// opens the parent of its argument, which blocks forever when that parent is a
// FIFO planted by the simulated user).
func rmAll(abs string) {
	for p := filepath.Dir(abs); p != "/" && p != "."; p = filepath.Dir(p) {
		if st, err := os.Lstat(p); err == nil && !st.IsDir() {
			return // a non-directory ancestor: nothing can exist below it
		} else if err == nil {
			break
		}
	}
	st, err := os.Lstat(abs)
	if err != nil {
		return
	}
	if st.IsDir() {
		names, _ := os.ReadDir(abs)
		for _, n := range names {
			rmAll(filepath.Join(abs, n.Name()))
		}
	}
	os.Remove(abs)
}

func copyTree(src, dst string) {
	st, err := os.Lstat(src)
	if err != nil {
		return
	}
	switch {
	case st.IsDir():
		os.Mkdir(dst, 0o755)
		names, _ := os.ReadDir(src)
		for _, n := range names {
			copyTree(filepath.Join(src, n.Name()), filepath.Join(dst, n.Name()))
		}
	case st.Mode().IsRegular():
		data, _ := os.ReadFile(src)
		os.WriteFile(dst, data, st.Mode().Perm())
		os.Chmod(dst, st.Mode().Perm())
	case st.Mode()&os.ModeSymlink != 0:
		t, _ := os.Readlink(src)
		os.Symlink(t, dst)
	default:
		mkSpecial(dst)
	}
	if st.Mode()&os.ModeSymlink == 0 {
		// (never through a link: os.Chtimes follows it and would stamp the target)
		os.Chtimes(dst, st.ModTime(), st.ModTime())
	}
}

// -------------------------------------------------------- endpoint wrapper

type diskEndpoint struct {
	h      *harness
	side   string
	inner  synchronization.Endpoint
	remote bool // reached through the agent protocol over a simulated link
}

func (h *harness) connectDisk(logger *logging.Logger, url *urlpkg.URL, session string, version synchronization.Version,
	configuration *synchronization.Configuration, alpha bool) (synchronization.Endpoint, error) {
	side := sideName(alpha)
	bit := int64(2)
	if alpha {
		bit = 1
	}
	if h.plan.C("remote_sides")&bit != 0 {
		// This endpoint lives behind the agent protocol: a real endpoint
		// server over a simulated link (fragmentation, latency, cuts).
		n := h.s.Occur("link." + side)
		opts := simkit.LinkOpts{FragMax: int(h.plan.C("link_frag")), ShortMax: int(h.plan.C("link_short")), Delay: time.Duration(h.plan.C("link_delay_us")) * time.Microsecond}
		if f := h.s.MatchFault("link_cut", side, n); f != nil {
			dir := f.S
			if dir == "" {
				dir = "ab"
			}
			opts.CutAt = map[string]int{dir: int(f.Arg)}
			h.mu.Lock()
			h.ideal = false
			h.cycleClean = false
			h.mu.Unlock()
		}
		link := h.s.NewLink(fmt.Sprintf("agent.%s.%d", side, n), opts)
		h.s.Go(fmt.Sprintf("server.%s.%d", side, n), func() {
			err := remote.ServeEndpoint(logger.Sublogger("server"), link.B)
			link.B.Close()
			h.s.Logf("server."+side, "endpoint server ended (error: %v)", err != nil)
		})
		inner, err := remote.NewEndpoint(logger, link.A, url.Path, session, version, configuration, alpha)
		if err != nil {
			link.A.Close()
			h.s.Logf("ctl."+side, "remote connect failed: %v", err)
			return nil, err
		}
		h.s.Count("probe.remote_connects", 1)
		return &diskEndpoint{h: h, side: side, inner: inner, remote: true}, nil
	}
	inner, err := local.NewEndpoint(logger, url.Path, session, version, configuration, alpha)
	if err != nil {
		return nil, err
	}
	return &diskEndpoint{h: h, side: side, inner: inner}, nil
}

func (e *diskEndpoint) Poll(ctx context.Context) error {
	e.h.enter(e.side, "poll")
	defer e.h.leave(e.side)
	if ctx.Err() != nil {
		// Cancelled before the call got under way (the controller was already
		// asked to flush): the endpoint's select between "cancelled" and a
		// pending notification would be decided by the runtime's random
		// number generator, which no seed reproduces. Of the two legal
		// outcomes the simulation always takes "cancelled, notification kept".
		e.h.s.Count("probe.poll_cancelled_before_start", 1)
		return nil
	}
	err := e.inner.Poll(ctx)
	// Both endpoints' polls often end at the same simulated instant (the same
	// timer tick, or one by a change and the other by the cancellation that
	// follows): the scheduler, not the runtime, decides which return the
	// controller sees first.
	e.h.s.Gate("ctl."+e.side, "poll-return")
	if ctx.Err() == nil {
		e.h.s.Logf("ctl."+e.side, "poll -> %v", err)
	}
	return err
}

func (e *diskEndpoint) Scan(ctx context.Context, ancestor *core.Entry, full bool) (*core.Snapshot, error, bool) {
	e.h.checkResetAncestor(e.side, ancestor)
	h, d := e.h, e.h.disk
	started := h.enter(e.side, "scan")
	defer h.leave(e.side)
	h.mu.Lock()
	h.scanStarts[e.side] = append(h.scanStarts[e.side], started)
	h.scanCount[e.side]++
	n := h.scanCount[e.side]
	h.mu.Unlock()
	h.checkRecorded(e.side, ancestor)
	snap, err, again := e.inner.Scan(ctx, ancestor, full)
	if err != nil {
		h.mu.Lock()
		h.lastScan[e.side] = &scanRecord{n: n, failed: true}
		h.cycleClean = false
		h.mu.Unlock()
		h.s.Logf("ctl."+e.side, "scan full=%v -> error %v (retry %v)", full, err, again)
		return snap, err, again
	}
	h.s.Count("probe.disk_scans", 1)
	d.checkCanary("after " + e.side + " scan")
	// C12 / C21 as an invariant. A full scan is exact unless the user acted on
	// this side while it ran. Any other scan may legitimately return the
	// snapshot of the last polling scan, which is stale until the next poll
	// notices; but once a returned snapshot has been verified equal to the
	// disk (freshAt) and neither the user nor a transition has touched this
	// side since, every later snapshot must still equal the disk.
	ref := d.walkTree(e.side)
	fresh := snapshotMatches(d.comparable(snap.Content), ref)
	h.mu.Lock()
	if h.haltWatch && h.haltWatchSide == e.side && h.haltFirstScan == 0 {
		h.haltFirstScan = 2
		if fresh {
			h.haltFirstScan = 1
		}
	}
	userDuring := h.userSeq[e.side] > started
	lastChange := max(h.userSeq[e.side], d.transEnd[e.side])
	exact := (full && !userDuring) || (d.freshAt[e.side] > lastChange)
	// C42: after a snapshot was verified and with the user idle since, only
	// transitions have changed this side; a scan that starts after the last of
	// them returned must not hand out a snapshot taken before it finished.
	afterTransition := !exact && d.freshAt[e.side] > h.userSeq[e.side] && d.transEnd[e.side] > d.freshAt[e.side] && started > d.transEnd[e.side]
	if fresh {
		d.freshAt[e.side] = h.next()
	} else {
		d.freshAt[e.side] = 0
	}
	ideal := h.ideal
	h.mu.Unlock()
	if afterTransition && ideal {
		h.s.Count("probe.scans_after_transition_checked", 1)
		if !fresh {
			h.s.Violate("C42", "stale-snapshot-after-transition", "session-scan", "%s scan (full=%v, remote=%v) started after the last transition on that side had returned and the user was idle, yet it returned %s while the root holds %s", e.side, full, e.remote, render(snap.Content), render(ref))
		}
	}
	if exact && ideal {
		if !fresh {
			prop := "C12"
			if e.remote {
				// The same endpoint used locally is held to C12 by the other
				// disk scenarios; through the protocol the snapshot must be
				// reconstructed exactly (C21).
				prop = "C21"
			}
			h.s.Violate(prop, "snapshot-differs", "session-scan", "%s scan (full=%v, remote=%v) returned %s but the root holds %s", e.side, full, e.remote, render(snap.Content), render(ref))
		}
		h.s.Count("probe.scans_checked_against_walker", 1)
	}
	// C16: every link a scan accepts stays inside the root (POSIX lexical
	// resolution, judged by the harness's own rule).
	walk(snap.Content, "", func(p string, x *core.Entry) {
		if x.Kind == core.EntryKind_SymbolicLink {
			h.s.Count("probe.links_accepted_by_scan", 1)
			if !portableTarget(p, x.Target) {
				h.s.Violate("C16", "escaping-link-accepted", "scan", "the %s scan accepted the symbolic link %q -> %q, which is not a portable target inside the root (%s)", e.side, p, x.Target, whyNotPortable(p, x.Target))
			}
			// What counts is the link on the disk, not the text the scan
			// believes it read: with nobody having touched this side since the
			// scan began, the two are the same thing.
			if exact && ideal {
				if actual, err := os.Readlink(filepath.Join(d.roots[e.side], p)); err == nil {
					h.s.Count("probe.accepted_links_compared_with_disk", 1)
					if actual != x.Target {
						h.s.Violate("C16", "link-target-misread", "scan", "the %s scan reports the symbolic link %q as -> %q (%d bytes), the link on disk is -> %q (%d bytes)", e.side, p, x.Target, len(x.Target), actual, len(actual))
					} else if !portableTarget(p, actual) {
						h.s.Violate("C16", "escaping-link-accepted", "scan", "the %s scan accepted the symbolic link %q, which on disk is -> %q: not a portable target inside the root (%s)", e.side, p, actual, whyNotPortable(p, actual))
					}
				}
			}
		}
	})
	d.mu.Lock()
	d.lastSnap[e.side] = snap.Content
	d.mu.Unlock()
	if !h.preserve[e.side] {
		// This real endpoint plays a filesystem that cannot store executability
		// (none can be mounted here): the controller receives a copy of the
		// snapshot without executable bits that says so. Everything above was
		// checked on the unmasked snapshot.
		masked := proto.Clone(snap).(*core.Snapshot)
		masked.Content = withoutExec(snap.Content)
		masked.PreservesExecutability = false
		snap = masked
	}
	h.onScanReturn(e.side, ancestor, snap.Content, snap.PreservesExecutability, started, fresh)
	h.s.Logf("ctl."+e.side, "scan full=%v -> %s", full, render(snap.Content))
	return snap, err, again
}

// snapshotMatches compares a snapshot with the walker's tree; problematic
// entries match regardless of their message.
// comparable is the snapshot as the reference walk would describe it: a
// directory traversed under an ignore mask without anything trackable in it
// (Docker-style ignores) is untracked content.
func (d *diskState) comparable(snapshot *core.Entry) *core.Entry {
	if d.h.plan.C("docker_ignores") == 2 {
		// (A directory traversed under a mask is a directory to the walk.)
		out := cloneEntry(snapshot)
		walk(out, "", func(_ string, e *core.Entry) {
			if e.Kind == core.EntryKind_PhantomDirectory {
				e.Kind = core.EntryKind_Directory
			}
		})
		return out
	}
	if d.h.plan.C("docker_ignores") != 1 || snapshot == nil || snapshot.Kind != core.EntryKind_Directory {
		return snapshot
	}
	ig := snapshot.Contents["ig"]
	if ig == nil || ig.Kind != core.EntryKind_PhantomDirectory {
		return snapshot
	}
	out := &core.Entry{Kind: snapshot.Kind, Contents: map[string]*core.Entry{}}
	for n, c := range snapshot.Contents {
		out.Contents[n] = c
	}
	out.Contents["ig"] = &core.Entry{Kind: core.EntryKind_Untracked}
	return out
}

func snapshotMatches(a, b *core.Entry) bool {
	if a == nil || b == nil {
		return a == b
	}
	if a.Kind != b.Kind {
		return false
	}
	if a.Kind == core.EntryKind_Problematic {
		return true
	}
	if a.Executable != b.Executable || !bytes.Equal(a.Digest, b.Digest) || a.Target != b.Target || len(a.Contents) != len(b.Contents) {
		return false
	}
	for n, ca := range a.Contents {
		if cb, ok := b.Contents[n]; !ok || !snapshotMatches(ca, cb) {
			return false
		}
	}
	return true
}

// callOrder is the order in which the changes of one Transition call are
// handed to the real endpoint: a pure function of the run seed and the paths
// (the results are mapped back). Reconciliation emits its change lists in the
// order of its walk, which nothing may depend on; staging paths keep the
// order the controller chose (the endpoint must answer with a subsequence).
func (e *diskEndpoint) callOrder(paths []string) []int {
	idx := make([]int, len(paths))
	for i := range idx {
		idx[i] = i
	}
	salt := int64(e.h.plan.Seed)
	sort.SliceStable(idx, func(a, b int) bool {
		ha, hb := stableHash(salt, "order", paths[idx[a]]), stableHash(salt, "order", paths[idx[b]])
		if ha != hb {
			return ha < hb
		}
		return paths[idx[a]] < paths[idx[b]]
	})
	return idx
}

func (e *diskEndpoint) Stage(paths []string, digests [][]byte) ([]string, []*rsync.Signature, rsync.Receiver, error) {
	h := e.h
	h.enter(e.side, "stage")
	defer h.leave(e.side)
	h.onStage(e.side, paths)
	filtered, sigs, recv, err := e.inner.Stage(paths, digests)
	h.disk.checkCanary("after " + e.side + " stage")
	h.s.Logf("ctl."+e.side, "stage %d paths -> %d needed, err %v", len(paths), len(filtered), err)
	return filtered, sigs, recv, err
}

func (e *diskEndpoint) Supply(paths []string, signatures []*rsync.Signature, receiver rsync.Receiver) error {
	h := e.h
	h.enter(e.side, "supply")
	defer h.leave(e.side)
	err := e.inner.Supply(paths, signatures, receiver)
	h.disk.checkCanary("after " + e.side + " supply")
	h.s.Logf("ctl."+e.side, "supply %d paths -> %v", len(paths), err)
	return err
}

func (e *diskEndpoint) Transition(ctx context.Context, transitions []*core.Change) ([]*core.Entry, []*core.Problem, bool, error) {
	if len(transitions) < 2 {
		return e.transitionInOrder(ctx, transitions)
	}
	paths := make([]string, len(transitions))
	for i, c := range transitions {
		paths[i] = c.Path
	}
	order := e.callOrder(paths)
	permuted := make([]*core.Change, len(transitions))
	for i, k := range order {
		permuted[i] = transitions[k]
	}
	results, problems, missing, err := e.transitionInOrder(ctx, permuted)
	if len(results) == len(transitions) {
		back := make([]*core.Entry, len(results))
		for i, k := range order {
			back[k] = results[i]
		}
		results = back
	}
	return results, problems, missing, err
}

func (e *diskEndpoint) transitionInOrder(ctx context.Context, transitions []*core.Change) ([]*core.Entry, []*core.Problem, bool, error) {
	h, d := e.h, e.h.disk
	if h.plan.C("docker_ignores") == 1 {
		// (Changes planned beneath the ignored directory are only counted: a
		// scan error inside it makes the directory trackable, and an empty
		// directory of that name is then rightly created on the other side.
		// What must not happen is judged where it would happen: no system call
		// of a transition may remove or replace a file there.)
		for _, t := range transitions {
			if t.Path == "ig" || strings.HasPrefix(t.Path, "ig/") {
				h.s.Count("probe.change_planned_beneath_ignored_directory", 1)
			}
		}
	}
	invoked := h.enter(e.side, "transition")
	h.mu.Lock()
	h.transInFlight[e.side]++
	h.mu.Unlock()
	defer func() {
		h.mu.Lock()
		h.transInFlight[e.side]--
		h.mu.Unlock()
		h.leave(e.side)
	}()
	h.onTransition(e.side, transitions)
	d.mu.Lock()
	d.transStart[e.side] = invoked
	if d.curTransitions == nil {
		d.curTransitions = map[string][]*core.Change{}
	}
	d.curTransitions[e.side] = transitions
	d.mu.Unlock()
	var execBefore *core.Entry
	if h.preserve[e.side] && !h.preserve[other(e.side)] {
		execBefore = d.walkTree(e.side)
	}
	results, problems, missing, err := e.inner.Transition(ctx, transitions)
	h.noteTransitionReturned(e.side)
	if execBefore != nil {
		d.checkExecutabilityKept(e.side, invoked, transitions, execBefore)
	}
	d.mu.Lock()
	d.transStart[e.side] = 0
	d.mu.Unlock()
	h.mu.Lock()
	d.transEnd[e.side] = h.next()
	h.mu.Unlock()
	d.checkCanary("after " + e.side + " transition")
	h.s.Count("probe.disk_transitions", 1)
	if err != nil {
		h.mu.Lock()
		h.cycleClean = false
		h.ideal = false
		h.mu.Unlock()
		h.s.Logf("ctl."+e.side, "transition %d changes -> error %v", len(transitions), err)
		return results, problems, missing, err
	}
	tree := d.walkTree(e.side)
	// Reach probes: the guards of C08 actually fired (content changed after the scan
	// was refused and reported as a problem).
	for _, p := range problems {
		switch {
		case strings.Contains(p.Error, "modification detected"):
			h.s.Count("probe.transition_problem_modified", 1)
		case strings.Contains(p.Error, "unknown content encountered"):
			h.s.Count("probe.transition_problem_unknown_content", 1)
		case strings.Contains(p.Error, "target does not match"):
			h.s.Count("probe.transition_problem_link_target", 1)
		}
	}
	h.mu.Lock()
	if len(problems) > 0 || missing {
		h.cycleClean = false
	}
	h.pending[e.side] = nil
	for i, t := range transitions {
		h.pending[e.side] = append(h.pending[e.side], pendingResult{t.Path, cloneEntry(results[i])})
	}
	// The results can only be held to the disk when the snapshot this plan was
	// computed from was verified equal to the disk and the user has not acted
	// on this side since (a transition refuses content that changed after the
	// scan and then reports the entry it expected, by design).
	userAfter := h.userSeq[e.side] > invoked || d.freshAt[e.side] == 0 || h.userSeq[e.side] > d.freshAt[e.side]
	h.mu.Unlock()
	// C10 / C09 (fault-free part): what the call reports is what is on disk,
	// and every file it reports as created carries the planned digest.
	if !userAfter {
		for i, t := range transitions {
			on := syncPart(lookup(tree, t.Path))
			if !deepEqual(on, results[i]) && !hasUnsync(lookup(tree, t.Path)) {
				h.s.Violate("C09", "result-differs-from-disk", "session-transition", "%s transition at %q reported %s but the root holds %s (planned %s -> %s)", e.side, t.Path, render(results[i]), render(on), render(t.Old), render(t.New))
			}
			walk(results[i], t.Path, func(p string, r *core.Entry) {
				if r.Kind != core.EntryKind_File {
					return
				}
				rel := strings.TrimPrefix(strings.TrimPrefix(p, t.Path), "/")
				planned := lookup(t.New, rel)
				old := lookup(t.Old, rel)
				if planned != nil && planned.Kind == core.EntryKind_File && (old == nil || !bytes.Equal(old.Digest, planned.Digest)) {
					got := lookup(tree, p)
					if got != nil && got.Kind == core.EntryKind_File && bytes.Equal(r.Digest, planned.Digest) && !bytes.Equal(got.Digest, planned.Digest) {
						h.s.Violate("C10", "wrong-content-in-root", "session-transition", "%s: file %q was written with digest %x, the plan names %x", e.side, p, got.Digest[:4], planned.Digest[:4])
					}
					h.s.Count("probe.created_files_checked", 1)
				}
			})
		}
	}
	// C16: links created by this transition.
	for i, t := range transitions {
		walk(results[i], t.Path, func(p string, r *core.Entry) {
			if r.Kind != core.EntryKind_SymbolicLink {
				return
			}
			rel := strings.TrimPrefix(strings.TrimPrefix(p, t.Path), "/")
			if old := lookup(t.Old, rel); old != nil && old.Kind == core.EntryKind_SymbolicLink && old.Target == r.Target {
				return // already there before
			}
			h.s.Count("probe.links_created_by_transition", 1)
			if !portableTarget(p, r.Target) {
				h.s.Violate("C16", "escaping-link-created", "transition", "the %s transition created the symbolic link %q -> %q, which is not a portable target inside the root (%s)", e.side, p, r.Target, whyNotPortable(p, r.Target))
			}
		})
	}
	h.s.Logf("ctl."+e.side, "transition %d changes -> %d problems missing=%v -> %s", len(transitions), len(problems), missing, render(tree))
	return results, problems, missing, err
}

// checkAttribution runs at rest on real roots. (C10) Every regular file holds a
// content the simulated user wrote at some point: anything else is a corrupt,
// truncated or mixed-up transfer that reached a root. (C01, two-way-safe) A
// content the user wrote and nobody superseded - no later user action on that
// path, an ancestor or a descendant, on either side, no conflict covering it -
// still exists somewhere.
func (d *diskState) checkAttribution(a, b *core.Entry, st *synchronization.State, underConflict func(string) bool) {
	h := d.h
	d.mu.Lock()
	values := make(map[string]userValue, len(d.values))
	for k, v := range d.values {
		values[k] = v
	}
	raceLost := make(map[string]bool, len(d.raceLost))
	for k := range d.raceLost {
		raceLost[k] = true
	}
	edits := make(map[string]int64, len(d.userEdit))
	for k, v := range d.userEdit {
		edits[k] = v
	}
	d.mu.Unlock()
	present := map[string]bool{}
	for side, tree := range map[string]*core.Entry{"alpha": a, "beta": b} {
		walk(tree, "", func(p string, e *core.Entry) {
			if e.Kind != core.EntryKind_File {
				return
			}
			present[string(e.Digest)] = true
			if _, ok := values[string(e.Digest)]; !ok && !strings.Contains(p, temporaryPrefix) {
				h.s.Violate("C10", "unattributable-content", "rest", "at rest %s holds a file %q whose content (sha1 %x) the user never wrote anywhere: a corrupt, truncated or mixed-up transfer reached the root", side, p, e.Digest[:4])
			}
		})
	}
	h.s.Count("probe.attribution_checked", 1)
	if h.mode != core.SynchronizationMode_SynchronizationModeTwoWaySafe {
		return
	}
	problems := st.AlphaState != nil && st.BetaState != nil && len(st.AlphaState.TransitionProblems)+len(st.BetaState.TransitionProblems)+len(st.AlphaState.ScanProblems)+len(st.BetaState.ScanProblems) > 0
	if problems {
		return
	}
	var lost []string
	for digest, v := range values {
		if present[digest] || underConflict(v.path) || raceLost[digest] {
			continue
		}
		superseded := false
		for k, seq := range edits {
			_, p, _ := strings.Cut(k, ":")
			if seq > v.seq && pathRelated(p, v.path) {
				superseded = true
				break
			}
		}
		if !superseded {
			lost = append(lost, fmt.Sprintf("%q written on %s (sha1 %x)", v.path, v.side, digest[:4]))
		}
	}
	sort.Strings(lost)
	if len(lost) > 0 {
		h.s.Violate("C01", "user-value-lost", "rest", "content the user wrote and never touched again exists on neither endpoint at rest, and no conflict covers it: %s", strings.Join(lost, "; "))
	}
}

// checkExecutabilityKept is the on-disk half of C18 for the endpoint that stores
// executability when the other one cannot: a file that was there before the
// transition and is there after it, and whose content on this side was unchanged
// since the last synchronization, keeps the executable bit it had on disk
// (changes coming from the other side carry no executability of their own).
func (d *diskState) checkExecutabilityKept(side string, invoked int64, transitions []*core.Change, before *core.Entry) {
	h := d.h
	after := d.walkTree(side)
	anc, err := h.loadArchive()
	if err != nil {
		return
	}
	for _, t := range transitions {
		walk(t.Old, t.Path, func(p string, o *core.Entry) {
			if o.Kind != core.EntryKind_File {
				return
			}
			b, a, arch := lookup(before, p), lookup(after, p), lookup(anc, p)
			if b == nil || a == nil || b.Kind != core.EntryKind_File || a.Kind != core.EntryKind_File {
				return
			}
			if arch == nil || arch.Kind != core.EntryKind_File || !bytes.Equal(arch.Digest, b.Digest) {
				return // modified here as well: the winner replaces it wholesale, by design
			}
			d.mu.Lock()
			touched := d.userEdit[side+":"+p] > invoked
			d.mu.Unlock()
			if touched {
				return
			}
			h.s.Count("probe.exec_kept_checked_on_disk", 1)
			if a.Executable != b.Executable {
				h.s.Violate("C18", "executability-changed-on-disk", "Transition", "file %q on %s (which stores executability; the other endpoint cannot) was executable=%v on disk before the transition and is executable=%v after it, although its content here was unchanged since the last synchronization", p, side, b.Executable, a.Executable)
			}
		})
	}
}

func (e *diskEndpoint) Shutdown() error {
	e.h.enter(e.side, "shutdown")
	defer e.h.leave(e.side)
	return e.inner.Shutdown()
}

// diskInvariant runs at every quiescent point of a disk scenario.
func (h *harness) diskInvariant() {
	if h.disk != nil {
		h.disk.canaryAccesses("at a quiescent point")
	}
}

// checkCanary verifies that nothing outside the roots was touched (C17).
func (d *diskState) checkCanary(when string) {
	// Serialised: the harness's own hashing of the canary produces events that
	// another harness goroutine must not mistake for mutagen's.
	d.canaryMu.Lock()
	defer d.canaryMu.Unlock()
	d.canaryAccessesLocked(when)
	if got := d.hashTree(d.canary); got != d.canaryHash {
		d.h.s.Violate("C17", "canary-modified", when, "the canary directory outside both roots was created in, modified or deleted from (%s)", when)
		d.canaryHash = got
	}
	d.drainCanaryEvents() // the harness's own reads just now
}

// watchCanary puts a non-blocking inotify watch on every directory of the canary
// tree. Nothing but the harness's own hashing (whose events are discarded right
// after) has any business there: the simulated user never acts through a link,
// the walker never follows one, so any event is an access by mutagen that left
// the root through an in-root symbolic link - whatever call it used, hooked or not.
func (d *diskState) watchCanary() {
	d.inotify = -1
	fd, err := unix.InotifyInit1(unix.IN_NONBLOCK | unix.IN_CLOEXEC)
	if err != nil {
		d.h.s.Count("probe.inotify_unavailable", 1)
		return
	}
	d.inotify, d.watches = fd, map[int32]string{}
	filepath.Walk(d.canary, func(p string, info os.FileInfo, err error) error {
		if err == nil && info.IsDir() {
			if wd, err := unix.InotifyAddWatch(fd, p, unix.IN_OPEN|unix.IN_ACCESS|unix.IN_MODIFY|unix.IN_CREATE|unix.IN_DELETE|unix.IN_ATTRIB|unix.IN_MOVED_FROM|unix.IN_MOVED_TO|unix.IN_DELETE_SELF); err == nil {
				d.watches[int32(wd)] = strings.TrimPrefix(strings.TrimPrefix(p, d.canary), "/")
			}
		}
		return nil
	})
	d.drainCanaryEvents()
}

// drainCanaryEvents reads all pending events and returns them rendered.
func (d *diskState) drainCanaryEvents() []string {
	if d.inotify < 0 {
		return nil
	}
	var out []string
	buf := make([]byte, 16384)
	for {
		n, err := unix.Read(d.inotify, buf)
		if n <= 0 || err != nil {
			return out
		}
		for off := 0; off+unix.SizeofInotifyEvent <= n; {
			ev := (*unix.InotifyEvent)(unsafe.Pointer(&buf[off]))
			name := strings.TrimRight(string(buf[off+unix.SizeofInotifyEvent:off+unix.SizeofInotifyEvent+int(ev.Len)]), "\x00")
			var kinds []string
			for _, k := range []struct {
				bit  uint32
				name string
			}{{unix.IN_OPEN, "open"}, {unix.IN_ACCESS, "read"}, {unix.IN_MODIFY, "write"}, {unix.IN_CREATE, "create"}, {unix.IN_DELETE, "delete"}, {unix.IN_ATTRIB, "attrib"}, {unix.IN_MOVED_FROM, "moved-from"}, {unix.IN_MOVED_TO, "moved-to"}, {unix.IN_DELETE_SELF, "delete-self"}} {
				if ev.Mask&k.bit != 0 {
					kinds = append(kinds, k.name)
				}
			}
			out = append(out, fmt.Sprintf("%s of %q", strings.Join(kinds, "+"), filepath.Join(d.watches[ev.Wd], name)))
			off += unix.SizeofInotifyEvent + int(ev.Len)
		}
	}
}

// canaryAccesses reports every access to the canary tree since the last drain.
func (d *diskState) canaryAccesses(when string) {
	d.canaryMu.Lock()
	defer d.canaryMu.Unlock()
	d.canaryAccessesLocked(when)
}

func (d *diskState) canaryAccessesLocked(when string) {
	evs := d.drainCanaryEvents()
	if len(evs) == 0 {
		return
	}
	sort.Strings(evs)
	d.h.s.Violate("C17", "canary-accessed", strings.Fields(evs[0])[0], "something outside both roots was opened, read or changed (%s): %s", when, strings.Join(evs, "; "))
}

var _ = errors.New
var _ = sort.Strings
