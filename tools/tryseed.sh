#!/bin/sh
# usage: tryseed.sh <patch.diff> <property> [budget] [more properties...]
# Applies a seeded patch to /repo, runs the quick check(s), and undoes the patch.
patch=$1; shift; prop=$1; shift; budget=${1:-20}; [ $# -gt 0 ] && shift
cd /verif
if ! git -C /repo apply --check "$patch" 2>/dev/null; then echo "PATCH DOES NOT APPLY"; exit 3; fi
git -C /repo apply "$patch"
for p in $prop "$@"; do
  out=$(./bin/check $p --budget $budget 2>&1); code=$?
  echo "== $p exit=$code"; echo "$out" | head -6 | cut -c1-260; echo "$out" | tail -1 | cut -c1-200
done
git -C /repo checkout -- . ; git -C /repo status --short | head -3
