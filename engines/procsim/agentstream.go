package procsim

import (
	"bufio"
	"errors"
	"fmt"
	"io"
	"os"
	"os/exec"
	"strings"
	"sync"
	"syscall"
	"time"

	"github.com/mutagen-io/mutagen/pkg/agent/transport"
	"github.com/mutagen-io/mutagen/pkg/verif"

	"verif/simkit"
)

// ---------------------------------------------------------------- C35
//
// The node is a real child process (the helper in "agent" mode) wrapped in the
// real transport.Stream. The child does nothing on its own: it reports what
// reaches it (end of input, SIGTERM) on an event pipe and exits only when the
// simulator tells it to on a control pipe, so the plan decides which of the
// behaviours of the property it shows - exits on its own, exits when its input
// closes, exits on the termination signal, ignores everything - and *when*
// relative to the phases of Stream.Close, which the simulator parks at the
// guarded yield sites between the phases. The escalation timers of Close are
// the real ones (there is no seam for them); no verdict depends on which of two
// racing things wins, because the child either reacts at once to an event or not
// at all in that phase, and a reaction is never placed near a timer expiry.

// closeSites are the yield sites of Stream.Close, in order.
var closeSites = []string{"agentstream.close.waiting", "agentstream.close.before-stdin-close", "agentstream.close.before-sigterm", "agentstream.close.before-kill"}

func genAgentStream(p *simkit.Plan, r *simkit.Rand, tier string) {
	c := p.Cfg
	// When the child ends: 0 before Close is called, 1..4 while Close is parked
	// at the corresponding site, 5 when its input closes, 6 on SIGTERM, 7 never
	// (only SIGKILL ends it).
	c["exit_at"] = int64(r.Intn(8))
	c["delay_ms"] = int64(simkit.Pick(r, []int{0, 0, 120}))
	// A grandchild that inherits the child's output and error pipes and
	// outlives it (the situation of golang/go#23019).
	c["grandchild"] = int64(simkit.Pick(r, []int{0, 0, 1}))
	// Traffic before the close, error output relayed or not.
	c["echo_bytes"] = int64(simkit.Pick(r, []int{0, 1, 300, 70000}))
	c["stderr"] = int64(r.Intn(2))
	c["stderr_chatter"] = int64(simkit.Pick(r, []int{0, 0, 40}))
	// Close is also called concurrently with SetTerminationDelay.
	c["set_delay_during_close"] = int64(r.Intn(2))
	// An agent that does not read its input, and a large Write still in flight
	// (blocked on the full pipe) when Close is called.
	if r.Chance(1, 4) {
		c["no_read"] = 1
		c["echo_bytes"] = 0
	}
	c["pending_write"] = int64(simkit.Pick(r, []int{0, 0, 1 << 20}))
	// A second Close by another caller while the first one is parked between two
	// of its phases (1..4); it too must not return before the process is gone.
	if r.Chance(1, 4) {
		c["second_close_at"] = int64(r.Range(1, 4))
		c["set_delay_during_close"] = 0
	}
}

type agentChild struct {
	cmd     *exec.Cmd
	control *os.File // parent -> child commands
	events  *bufio.Reader
	evFile  *os.File
	evCh    chan string
}

func execAgentStream(plan *simkit.Plan) *simkit.Result {
	helper := os.Getenv("VERIF_HELPER")
	res := simkit.RunPlain(plan, func(s *simkit.Sim) {
		if helper == "" {
			panic("VERIF_HELPER not set")
		}
		c := plan.Cfg
		cmd := exec.Command(helper, "agent")
		ctlR, ctlW, _ := os.Pipe()
		evR, evW, _ := os.Pipe()
		cmd.ExtraFiles = []*os.File{ctlR, evW} // fd 3: control, fd 4: events
		cmd.Env = append(os.Environ(), fmt.Sprintf("VERIF_AGENT_GRANDCHILD=%d", c["grandchild"]), fmt.Sprintf("VERIF_AGENT_CHATTER=%d", c["stderr_chatter"]), fmt.Sprintf("VERIF_AGENT_NOREAD=%d", c["no_read"]))
		var stderrBuf lockedBuffer
		var stderrReceiver io.Writer
		if c["stderr"] == 1 {
			stderrReceiver = &stderrBuf
		}
		stream, err := transport.NewStream(cmd, stderrReceiver)
		if err != nil {
			panic(err)
		}
		if err := cmd.Start(); err != nil {
			panic(err)
		}
		ctlR.Close()
		evW.Close()
		child := &agentChild{cmd: cmd, control: ctlW, evFile: evR, events: bufio.NewReader(evR), evCh: make(chan string, 16)}
		pid := cmd.Process.Pid
		go func() {
			for {
				line, err := child.events.ReadString('\n')
				if line != "" {
					child.evCh <- strings.TrimSpace(line)
				}
				if err != nil {
					child.evCh <- "gone"
					return
				}
			}
		}()
		grandchild := 0
		defer func() {
			// Whatever happened, leave no process behind.
			if grandchild > 0 {
				syscall.Kill(grandchild, syscall.SIGKILL)
			}
			syscall.Kill(pid, syscall.SIGKILL)
			ctlW.Close()
			evR.Close()
		}()
		gone := false
		waitEvent := func(want string, limit time.Duration) bool {
			if want == "gone" && gone {
				return true
			}
			deadline := time.After(limit)
			for {
				select {
				case ev := <-child.evCh:
					s.Logf("child", "event %s", ev)
					if ev == "gone" {
						gone = true
						return want == "gone"
					}
					if ev == want {
						return true
					}
				case <-deadline:
					return false
				}
			}
		}
		tellExit := func(when string) {
			s.Logf("sim", "the child is told to exit (%s)", when)
			s.Count("probe.child_exit_"+when, 1)
			child.control.Write([]byte("exit\n"))
			if !waitEvent("gone", 5*time.Second) {
				panic(fmt.Sprintf("the helper did not exit when told to (%s)", when))
			}
		}
		if c["grandchild"] == 1 {
			// The child names its grandchild first, so that it can be removed
			// when the run is over (it outlives every bound of this scenario).
			select {
			case ev := <-child.evCh:
				fmt.Sscanf(ev, "grandchild %d", &grandchild)
			case <-time.After(10 * time.Second):
			}
		}
		if !waitEvent("ready", 10*time.Second) {
			panic("the helper agent did not start")
		}
		// Some traffic through the stream first: the child echoes its input.
		if n := int(c["echo_bytes"]); n > 0 {
			payload := simkit.NewRand(plan.Seed, 5).Bytes(n, 256)
			go stream.Write(payload)
			got := make([]byte, n)
			if _, err := io.ReadFull(stream, got); err != nil || string(got) != string(payload) {
				s.Violate("C35", "stream-io", "echo", "the stream did not carry %d bytes to the agent and back: %v", n, err)
				return
			}
			s.Count("probe.echoed", 1)
		}
		exitAt := int(c["exit_at"])
		if exitAt == 0 {
			tellExit("before-close")
		}
		if d := c["delay_ms"]; d > 0 {
			stream.SetTerminationDelay(time.Duration(d) * time.Millisecond)
		}
		// Park Close between its phases.
		reached, proceed := make(chan string), make(chan struct{})
		var hookMu sync.Mutex
		hookOn := true
		verif.YieldHook = func(site string) {
			hookMu.Lock()
			on := hookOn
			hookMu.Unlock()
			if on && strings.HasPrefix(site, "agentstream.close.") {
				reached <- site
				<-proceed
			}
		}
		defer func() { verif.YieldHook = nil }()
		if n := int(c["pending_write"]); n > 0 {
			// A writer that is still busy (blocked, if the agent does not read)
			// when Close is called; closing must release it, not wait for it.
			go stream.Write(make([]byte, n))
			time.Sleep(20 * time.Millisecond)
		}
		type closeResult struct{ err error }
		closed := make(chan closeResult, 1)
		start := time.Now()
		go func() { closed <- closeResult{stream.Close()} }()
		if c["set_delay_during_close"] == 1 {
			go stream.SetTerminationDelay(time.Duration(c["delay_ms"]) * time.Millisecond)
		}
		// Worst case: the delay, one second after closing the input, one second
		// after SIGTERM, then the kill; generous slack for a loaded machine.
		limit := time.Duration(c["delay_ms"])*time.Millisecond + 2*time.Second + 5*time.Second
		timeout := time.After(limit)
		var closeErr error
		sawEOF, sawTerm := false, false
		finished := false
		secondAt := int(c["second_close_at"])
		closed2 := make(chan closeResult, 1)
		firstParked := false
		for !finished {
			select {
			case site := <-reached:
				s.Logf("close", "parked at %s", site)
				s.Count("probe.site."+strings.TrimPrefix(site, "agentstream.close."), 1)
				for i, name := range closeSites {
					if name == site && exitAt == i+1 {
						tellExit("at-" + strings.TrimPrefix(site, "agentstream.close."))
					}
				}
				if secondAt > 0 && closeSites[secondAt-1] == site && !firstParked {
					// The first Close stays parked here; another caller closes the
					// same stream and runs through unhindered.
					firstParked = true
					hookMu.Lock()
					hookOn = false
					hookMu.Unlock()
					s.Count("probe.second_close_started", 1)
					go func() { closed2 <- closeResult{stream.Close()} }()
					continue
				}
				proceed <- struct{}{}
			case r2 := <-closed2:
				s.Logf("close", "the second Close returned: %v", r2.err)
				s.Count("probe.second_close_returned", 1)
				if err := syscall.Kill(pid, 0); err == nil {
					if st, rerr := os.ReadFile(fmt.Sprintf("/proc/%d/stat", pid)); rerr == nil && !strings.Contains(string(st), ") Z ") {
						s.Violate("C35", "process-alive-after-close", "second-close", "a second Stream.Close, called while the first one was between two of its phases, returned (%v) but process %d still exists: %s", r2.err, pid, strings.TrimSpace(string(st)))
					}
				}
				// Now the first one may go on.
				proceed <- struct{}{}
			case ev := <-child.evCh:
				s.Logf("child", "event %s", ev)
				switch ev {
				case "gone":
					gone = true
				case "stdin-eof":
					sawEOF = true
					if exitAt == 5 {
						tellExit("on-stdin-eof")
					}
				case "sigterm":
					if !sawEOF {
						// (Not part of the property as stated, and two goroutines
						// of the child report these events: counted only.)
						s.Count("probe.sigterm_before_stdin_eof", 1)
					}
					sawTerm = true
					if exitAt == 6 {
						tellExit("on-sigterm")
					}
				}
			case r := <-closed:
				closeErr = r.err
				finished = true
			case <-timeout:
				s.Violate("C35", "close-hangs", fmt.Sprintf("exit_at_%d", exitAt), "Stream.Close has not returned %v after it was called (child behaviour %d, termination delay %d ms, grandchild %d)", limit, exitAt, c["delay_ms"], c["grandchild"])
				hookMu.Lock()
				hookOn = false
				hookMu.Unlock()
				select {
				case <-reached:
					proceed <- struct{}{}
				default:
				}
				return
			}
		}
		s.Count("probe.close_wall_ms", time.Since(start).Milliseconds())
		s.Logf("close", "returned: %v", closeErr)
		s.Count("probe.close_returned", 1)
		_ = sawTerm
		// The process has exited by then: it was reaped by Close's own Wait, so
		// the identifier no longer names a process (or names nothing of ours),
		// and the event pipe (held open by the child alone) is at its end.
		if err := syscall.Kill(pid, 0); err == nil {
			if st, rerr := os.ReadFile(fmt.Sprintf("/proc/%d/stat", pid)); rerr == nil {
				s.Violate("C35", "process-alive-after-close", fmt.Sprintf("exit_at_%d", exitAt), "Stream.Close returned (%v) but process %d still exists: %s", closeErr, pid, strings.TrimSpace(string(st)))
			}
		} else if !errors.Is(err, syscall.ESRCH) {
			panic(fmt.Sprintf("kill(pid, 0): %v", err))
		}
		if secondAt > 0 {
			// (Two callers waited for the process: which of the two Wait calls
			// recorded its state is not part of the property.)
		} else if cmd.ProcessState == nil {
			s.Violate("C35", "not-waited", fmt.Sprintf("exit_at_%d", exitAt), "Stream.Close returned (%v) without having waited for the process", closeErr)
		} else if exitAt == 7 {
			// A child that ignores everything can only have ended by SIGKILL.
			if ws, ok := cmd.ProcessState.Sys().(syscall.WaitStatus); ok && !(ws.Signaled() && ws.Signal() == syscall.SIGKILL) {
				s.Violate("C35", "unexpected-end", "ignore-all", "the agent ignored everything, yet it ended with %v instead of being killed", cmd.ProcessState)
			}
			s.Count("probe.killed", 1)
		}
		if !waitEvent("gone", 3*time.Second) {
			s.Violate("C35", "process-alive-after-close", fmt.Sprintf("exit_at_%d", exitAt), "Stream.Close returned but the agent still holds its event pipe open")
		}
		// The stream's own handles are closed.
		if _, err := stream.Write([]byte{1}); err == nil {
			s.Violate("C35", "handles-open-after-close", "stdin", "writing to the stream succeeded after Close returned")
		}
	})
	res.NonTrivial = res.Counters["probe.close_returned"] >= 1
	res.Fingerprint = simkit.Digest(fmt.Sprint(plan.Cfg))
	return res
}

type lockedBuffer struct {
	mu sync.Mutex
	n  int
}

func (b *lockedBuffer) Write(p []byte) (int, error) {
	b.mu.Lock()
	b.n += len(p)
	b.mu.Unlock()
	return len(p), nil
}
