package wiresim

import (
	"bytes"
	"crypto/sha1"
	"errors"
	"fmt"
	"io"
	"regexp"
	"strings"
	"sync"
	"testing"
	"time"

	"github.com/mutagen-io/mutagen/pkg/logging"
	streampkg "github.com/mutagen-io/mutagen/pkg/stream"

	"verif/simkit"
)

// ------------------------------------------------------------------- log

var nasty = []string{"\n", "\r", "\r\n", "\x1b[2J", "\x1b]0;title\x07", "2024-01-02 03:04:05.000000 [E] forged", "\n2024-01-02 03:04:05.000000 [I] forged", "é", "\x00", "plain text", " ", "%s%d", "\x1b", "[W]", "\n\n"}

func nastyString(r *simkit.Rand, parts int) string {
	var b strings.Builder
	for i := 0; i < parts; i++ {
		if r.Chance(1, 2) {
			b.WriteString(simkit.Pick(r, nasty))
		} else {
			b.Write(r.Bytes(r.Range(0, 12), 26))
		}
	}
	return b.String()
}

func genLog(p *simkit.Plan, r *simkit.Rand, tier string) {
	p.Cfg["level"] = int64(r.Range(1, 5)) // error..trace
	p.Cfg["frag"] = int64(simkit.Pick(r, []int{1, 2, 7, 100, 0}))
	p.Cfg["scoped"] = int64(r.Intn(2))
	n := r.Range(2, 25)
	for i := 0; i < n; i++ {
		actor := fmt.Sprintf("l%d", r.Intn(3))
		switch r.Intn(4) {
		case 0, 1:
			p.Ops = append(p.Ops, simkit.Op{Actor: actor, Kind: "log", N: []int64{int64(r.Range(1, 5)), int64(r.Intn(2))}, S: []string{nastyString(r, r.Range(0, 4))}})
		default:
			// A relayed stream (e.g. agent standard error) written in
			// fragments through Logger.Writer.
			var b strings.Builder
			for k := r.Range(1, 5); k > 0; k-- {
				switch r.Intn(4) {
				case 0:
					lvl := simkit.Pick(r, []string{"E", "W", "I", "D", "T", "X", "e", "_"})
					b.WriteString("2024-01-02 03:04:05.000000 [" + lvl + "] " + strings.ReplaceAll(nastyString(r, 2), "\n", " "))
				default:
					b.WriteString(strings.ReplaceAll(nastyString(r, 3), "\n", " "))
				}
				b.WriteString(simkit.Pick(r, []string{"\n", "\r\n", "\n"}))
			}
			if r.Chance(1, 3) {
				b.WriteString("unterminated tail")
			}
			p.Ops = append(p.Ops, simkit.Op{Actor: actor, Kind: "relay", N: []int64{int64(r.Range(1, 5))}, S: []string{b.String()}})
		}
	}
}

// A relayed line may carry the pseudo-level "_" (disabled), which the logger
// forwards as is; it still has a timestamp, a level field and the scope.
var sinkLine = regexp.MustCompile(`^\d{4}-\d{2}-\d{2} \d{2}:\d{2}:\d{2}\.\d{6} \[([_EWIDT])\] (\[[\w.]+\] )?`)

type logSink struct {
	s      *simkit.Sim
	mu     sync.Mutex
	writes int
	scope  string
}

func (k *logSink) Write(p []byte) (int, error) {
	k.mu.Lock()
	k.writes++
	k.mu.Unlock()
	line := string(p)
	show := fmt.Sprintf("%q", line)
	if len(show) > 200 {
		show = show[:200] + "..."
	}
	if !strings.HasSuffix(line, "\n") {
		k.s.Violate("C44", "no-trailing-newline", "sink", "sink write does not end with a newline: %s", show)
	} else if strings.Contains(line[:len(line)-1], "\n") {
		k.s.Violate("C44", "embedded-newline", "sink", "one record produced more than one line: %s", show)
	}
	if strings.ContainsAny(line, "\r\x1b") {
		k.s.Violate("C44", "control-character", "sink", "carriage return or escape reached the log: %s", show)
	}
	m := sinkLine.FindStringSubmatch(line)
	if m == nil {
		k.s.Violate("C44", "missing-prefix", "sink", "line lacks the timestamp/level prefix: %s", show)
	} else if k.scope != "" && m[2] != "["+k.scope+"] " {
		k.s.Violate("C44", "missing-scope", "sink", "line lacks the scope %q: %s", k.scope, show)
	}
	return len(p), nil
}

var relayPrefix = regexp.MustCompile(`^\d{4}-\d{2}-\d{2} \d{2}:\d{2}:\d{2}\.\d{6} \[([_EWIDT])\] `)

// execLog decides C44 for direct records and relayed streams.
func execLog(t *testing.T, plan *simkit.Plan) *simkit.Result {
	var nontrivial bool
	res := simkit.Run(t, plan, simkit.Options{MaxSteps: 20000, Horizon: time.Minute}, func(s *simkit.Sim) {
		level := logging.Level(plan.C("level"))
		sink := &logSink{s: s}
		logger := logging.NewLogger(level, sink)
		if plan.C("scoped") == 1 {
			sink.scope = "sync.alpha"
			logger = logger.Sublogger("sync").Sublogger("alpha")
		}
		expected := 0
		var mu sync.Mutex
		names, per := actorsOfPlan(plan)
		running := 0
		levels := map[byte]logging.Level{'_': logging.LevelDisabled, 'E': logging.LevelError, 'W': logging.LevelWarn, 'I': logging.LevelInfo, 'D': logging.LevelDebug, 'T': logging.LevelTrace}
		for _, name := range names {
			name := name
			ops := per[name]
			running++
			s.Go(name, func() {
				defer func() { mu.Lock(); running--; mu.Unlock() }()
				for _, op := range ops {
					s.Gate(name, op.Kind)
					lvl := logging.Level(op.Int(0))
					switch op.Kind {
					case "log":
						if op.Int(1) == 0 {
							logAt(logger, lvl, op.Str(0))
						} else {
							logfAt(logger, lvl, "%s", op.Str(0))
						}
						if level >= lvl {
							mu.Lock()
							expected++
							mu.Unlock()
						}
					case "relay":
						w := logger.Writer(lvl)
						data := []byte(op.Str(0))
						frag := int(plan.C("frag"))
						// Like io.Copy, the relay reuses one buffer for every
						// write: a writer must not retain the slice it is given
						// (io.Writer), so whatever is in the buffer after Write
						// returned is the caller's business - here, garbage that
						// would forge lines if anything still referred to it.
						scratch := make([]byte, len(data)+1)
						for len(data) > 0 {
							n := len(data)
							if frag > 0 {
								n = min(n, 1+s.Choose(frag))
							}
							copy(scratch, data[:n])
							_, err := w.Write(scratch[:n])
							for i := range scratch {
								scratch[i] = "\n\x1b!\r"[i%4]
							}
							if err != nil {
								break
							}
							data = data[n:]
							s.Gate(name, "relay-fragment")
						}
						// Reference: complete lines only; a forged prefix
						// carries its own level (or a warning when invalid).
						lines := strings.Split(op.Str(0), "\n")
						for _, l := range lines[:len(lines)-1] {
							l = strings.TrimSuffix(l, "\r")
							if m := relayPrefix.FindStringSubmatch(l); m != nil {
								// A line that carries its own valid level field is
								// an agent log line: its level decides.
								if fl := levels[m[1][0]]; level >= fl {
									mu.Lock()
									expected++
									mu.Unlock()
								}
								s.Count("probe.forged_prefix_line", 1)
							} else if level >= lvl {
								mu.Lock()
								expected++
								mu.Unlock()
							}
						}
					}
				}
			})
		}
		s.Loop(func() bool { mu.Lock(); defer mu.Unlock(); return running == 0 })
		s.Finish()
		s.WaitActors(time.Second)
		sink.mu.Lock()
		if sink.writes != expected {
			s.Violate("C44", "record-count", "sink", "%d records/lines were logged at enabled levels but the sink received %d lines", expected, sink.writes)
		}
		nontrivial = sink.writes >= 2
		sink.mu.Unlock()
	})
	res.NonTrivial = nontrivial
	res.Fingerprint = res.JournalHash
	return res
}

func logAt(l *logging.Logger, lvl logging.Level, m string) {
	switch lvl {
	case logging.LevelError:
		l.Error(m)
	case logging.LevelWarn:
		l.Warn(m)
	case logging.LevelInfo:
		l.Info(m)
	case logging.LevelDebug:
		l.Debug(m)
	default:
		l.Trace(m)
	}
}

func logfAt(l *logging.Logger, lvl logging.Level, f string, a ...any) {
	switch lvl {
	case logging.LevelError:
		l.Errorf(f, a...)
	case logging.LevelWarn:
		l.Warnf(f, a...)
	case logging.LevelInfo:
		l.Infof(f, a...)
	case logging.LevelDebug:
		l.Debugf(f, a...)
	default:
		l.Tracef(f, a...)
	}
}

func actorsOfPlan(p *simkit.Plan) ([]string, map[string][]simkit.Op) {
	per := map[string][]simkit.Op{}
	var names []string
	for _, op := range p.Ops {
		if _, ok := per[op.Actor]; !ok {
			names = append(names, op.Actor)
		}
		per[op.Actor] = append(per[op.Actor], op)
	}
	return names, per
}

// --------------------------------------------------------------- writers

func genWriters(p *simkit.Plan, r *simkit.Rand, tier string) {
	p.Cfg["kind"] = int64(r.Intn(6)) // cutoff, lines, hashed, preemptable, valve, multicloser
	p.Cfg["param"] = int64(r.SmallBiased(40))
	p.Cfg["data_seed"] = int64(r.Uint64() >> 1)
	p.Cfg["short"] = int64(simkit.Pick(r, []int{0, 0, 1, 3}))
	p.Cfg["fail_every"] = int64(simkit.Pick(r, []int{0, 0, 2, 5}))
	n := r.Range(1, 20)
	for i := 0; i < n; i++ {
		p.Ops = append(p.Ops, simkit.Op{Actor: "w", Kind: "write", N: []int64{int64(r.SmallBiased(30))}})
		if r.Chance(1, 8) {
			p.Ops = append(p.Ops, simkit.Op{Actor: "w", Kind: "event"}) // cancel / shut
		}
	}
}

var errDown = errors.New("injected downstream failure")

// downstream accepts short counts (with io.ErrShortWrite) and fails
// transiently every k-th call.
type downstream struct {
	s         *simkit.Sim
	got       bytes.Buffer
	short     int
	failEvery int
	calls     int
	closed    bool
}

func (d *downstream) Write(p []byte) (int, error) {
	d.calls++
	if d.failEvery > 0 && d.calls%d.failEvery == 0 {
		d.s.Count("fault.downstream_error", 1)
		return 0, errDown
	}
	if d.short > 0 && len(p) > d.short {
		d.got.Write(p[:d.short])
		d.s.Count("fault.downstream_short", 1)
		return d.short, io.ErrShortWrite
	}
	d.got.Write(p)
	return len(p), nil
}

// execWriters decides C47 for one writer kind per run.
func execWriters(plan *simkit.Plan) *simkit.Result {
	res := simkit.RunPlain(plan, func(s *simkit.Sim) {
		c := plan.Cfg
		r := simkit.NewRand(uint64(c["data_seed"]), 7)
		down := &downstream{s: s, short: int(c["short"]), failEvery: int(c["fail_every"])}
		param := int(c["param"])
		// writeAll pushes data through w the way a careful caller does:
		// resubmitting the unwritten rest after a short or failed write.
		writeAll := func(w io.Writer, data []byte, check func(n int, err error, size int)) []byte {
			var accepted []byte
			for tries := 0; len(data) > 0 && tries < 200; tries++ {
				n, err := w.Write(data)
				if check != nil {
					check(n, err, len(data))
				}
				if n < 0 || n > len(data) {
					s.Violate("C47", "write-count", "writer", "Write(%d bytes) returned n=%d", len(data), n)
					return accepted
				}
				if n < len(data) && err == nil {
					s.Violate("C47", "short-write-nil-error", "writer", "Write(%d bytes) returned n=%d with nil error", len(data), n)
					return accepted
				}
				accepted = append(accepted, data[:n]...)
				data = data[n:]
			}
			return accepted
		}
		switch c["kind"] {
		case 0: // cutoff
			w := streampkg.NewCutoffWriter(down, uint(param))
			var logical []byte
			for _, op := range plan.Ops {
				if op.Kind != "write" {
					continue
				}
				data := r.Bytes(int(op.Int(0)), 256)
				logical = append(logical, writeAll(w, data, nil)...)
			}
			want := logical[:min(param, len(logical))]
			if !bytes.Equal(down.got.Bytes(), want) {
				s.Violate("C47", "cutoff-forwarded", "cutoff", "cutoff %d over %d written bytes: downstream received %d bytes, expected exactly the first %d", param, len(logical), down.got.Len(), len(want))
			}
			if len(logical) > param {
				s.Count("probe.cutoff_reached", 1)
			}
		case 1: // line processor
			var lines []string
			lp := &streampkg.LineProcessor{Callback: func(l string) { lines = append(lines, l) }, MaximumBufferSize: 0}
			limit := 64 * 1024
			if param%3 == 1 {
				limit = 10 + param
				lp.MaximumBufferSize = limit
			}
			var all []byte
			residue := 0
			alphabet := []byte("ab\n\r\n\r")
			for _, op := range plan.Ops {
				if op.Kind != "write" {
					continue
				}
				data := make([]byte, op.Int(0))
				for i := range data {
					data[i] = alphabet[r.Intn(len(alphabet))]
				}
				// The caller reuses its buffer (io.Copy does): written from a
				// scratch copy that is scribbled over as soon as Write returns.
				scratch := append([]byte(nil), data...)
				n, err := lp.Write(scratch)
				for i := range scratch {
					scratch[i] = "\n#\r"[i%3]
				}
				if residue+len(data) > limit {
					if err != streampkg.ErrMaximumBufferSizeExceeded || n != 0 {
						s.Violate("C47", "line-limit", "lines", "write of %d bytes onto a residue of %d with limit %d returned (%d, %v)", len(data), residue, limit, n, err)
					}
					s.Count("probe.line_limit_hit", 1)
					continue
				}
				if err != nil || n != len(data) {
					s.Violate("C47", "line-write", "lines", "write of %d bytes returned (%d, %v)", len(data), n, err)
				}
				all = append(all, data...)
				if i := bytes.LastIndexByte(all, '\n'); i >= 0 {
					residue = len(all) - i - 1
				} else {
					residue = len(all)
				}
			}
			parts := strings.Split(string(all), "\n")
			parts = parts[:len(parts)-1]
			for i := range parts {
				parts[i] = strings.TrimSuffix(parts[i], "\r")
			}
			if fmt.Sprintf("%q", parts) != fmt.Sprintf("%q", lines) {
				s.Violate("C47", "line-split", "lines", "callbacks %q, expected %q", lines, parts)
			}
		case 2: // hashed
			h := sha1.New()
			w := streampkg.NewHashedWriter(down, h)
			for _, op := range plan.Ops {
				if op.Kind == "write" {
					writeAll(w, r.Bytes(int(op.Int(0)), 256), nil)
				}
			}
			ref := sha1.Sum(down.got.Bytes())
			if !bytes.Equal(h.Sum(nil), ref[:]) {
				s.Violate("C47", "hash-mismatch", "hashed", "digest differs from the digest of the %d bytes accepted downstream", down.got.Len())
			}
		case 3: // preemptable
			cancelled := make(chan struct{})
			interval := uint(param % 6)
			w := streampkg.NewPreemptableWriter(down, cancelled, interval)
			isCancelled := false
			after := 0
			preempted := false
			for _, op := range plan.Ops {
				if op.Kind == "event" {
					if !isCancelled {
						close(cancelled)
						isCancelled = true
					}
					continue
				}
				before := down.calls
				_, err := w.Write(r.Bytes(int(op.Int(0))+1, 256))
				if isCancelled && down.calls > before {
					after++
				}
				if errors.Is(err, streampkg.ErrWritePreempted) {
					if !isCancelled {
						s.Violate("C47", "preempted-without-cancel", "preemptable", "ErrWritePreempted although not cancelled")
					}
					preempted = true
					break
				}
			}
			if after > int(interval) {
				s.Violate("C47", "preempt-late", "preemptable", "%d writes reached downstream after cancellation with check interval %d", after, interval)
			}
			if preempted {
				s.Count("probe.preempted", 1)
			}
		case 4: // valve
			v := streampkg.NewValveWriter(down)
			shut := false
			for _, op := range plan.Ops {
				if op.Kind == "event" {
					v.Shut()
					shut = true
					continue
				}
				before := down.calls
				data := r.Bytes(int(op.Int(0)), 256)
				n, err := v.Write(data)
				if shut {
					if down.calls != before {
						s.Violate("C47", "valve-leak", "valve", "a write reached downstream after Shut returned")
					}
					if n != len(data) || err != nil {
						s.Violate("C47", "valve-discard", "valve", "write after Shut returned (%d, %v), expected (%d, nil)", n, err, len(data))
					}
					s.Count("probe.valve_discarded", 1)
				}
			}
		case 5: // multi-closer
			k := 1 + param%5
			counts := make([]int, k)
			var closers []io.Closer
			var first error
			for i := 0; i < k; i++ {
				i := i
				var e error
				if r.Chance(1, 3) {
					e = fmt.Errorf("closer %d failed", i)
					if first == nil {
						first = e
					}
				}
				closers = append(closers, closerFunc(func() error { counts[i]++; return e }))
			}
			err := streampkg.NewMultiCloser(closers...).Close()
			if err != first {
				s.Violate("C47", "multicloser-error", "multicloser", "Close returned %v, the first failing closer returned %v", err, first)
			}
			for i, n := range counts {
				if n != 1 {
					s.Violate("C47", "multicloser-count", "multicloser", "closer %d was closed %d times", i, n)
				}
			}
		}
		s.Logf("writers", "kind %d param %d ok", c["kind"], param)
	})
	res.NonTrivial = len(plan.Ops) >= 2
	res.Fingerprint = simkit.Digest(fmt.Sprint(plan.Cfg), fmt.Sprint(plan.Ops))
	return res
}

type closerFunc func() error

func (f closerFunc) Close() error { return f() }
