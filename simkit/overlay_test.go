//go:build verifruntime

package simkit

import (
	"fmt"
	"os"
	"strings"
	"testing"
)

// TestOverlayOrder prints the iteration order of maps and the outcome of selects
// under a fixed runtime seed: run in two processes, the output must be equal.
func TestOverlayOrder(t *testing.T) {
	if os.Getenv("VERIF_OVERLAY_PROBE") == "" {
		t.Skip("probe")
	}
	setRuntimeSeed(12345)
	defer setRuntimeSeed(0)
	var out []string
	m := map[uint64]bool{}
	for i := uint64(0); i < 40; i++ {
		m[i*7+3] = true
	}
	for k := range m {
		out = append(out, fmt.Sprint(k))
	}
	for _, n := range []int{5, 8, 9, 20} {
		mm := map[uint64]bool{}
		for i := 0; i < n; i++ {
			mm[uint64(i)*7+3] = true
		}
		out = append(out, "|")
		for k := range mm {
			out = append(out, fmt.Sprint(k))
		}
	}
	out = append(out, "|")
	sm := map[string]int{"a": 1, "b": 2, "c": 3, "dd": 4, "eee": 5}
	for k := range sm {
		out = append(out, k)
	}
	a, b, c := make(chan int, 1), make(chan int, 1), make(chan int, 1)
	for i := 0; i < 20; i++ {
		a <- 1
		b <- 1
		c <- 1
		select {
		case <-a:
			out = append(out, "A")
			<-b
			<-c
		case <-b:
			out = append(out, "B")
			<-a
			<-c
		case <-c:
			out = append(out, "C")
			<-a
			<-b
		}
	}
	fmt.Println("PROBE", strings.Join(out, " "))
}
