#!/bin/sh
# Runs every claimed check once (tier from $1, default quick) and prints a summary line per property.
cd "$(dirname "$0")/.."
tier=${1:-quick}
for id in $(jq -r '.checks[].property_id' MANIFEST.json); do
  start=$(date +%s)
  out=$(./bin/run-check $id --tier $tier 2>&1); code=$?
  end=$(date +%s)
  echo "$id exit=$code $((end-start))s :: $(echo "$out" | tail -1 | cut -c1-160)"
  if [ $code -ne 0 ]; then echo "$out" | head -20; fi
done
