package syncsim

import (
	"testing"

	"verif/simkit"
)

// Component scenarios (one endpoint or bare core calls) are added here.
func componentScenarios(property string) []string                 { return nil }
func genComponent(p *simkit.Plan, r *simkit.Rand, tier string)      {}
func execComponent(t *testing.T, plan *simkit.Plan) *simkit.Result  { return nil }
