package syncsim

import (
	"bytes"
	"context"
	"fmt"
	"io"
	"os"
	"path/filepath"
	"sort"
	"sync"
	"testing"
	"time"

	"github.com/mutagen-io/mutagen/pkg/synchronization"
	"github.com/mutagen-io/mutagen/pkg/synchronization/compression"
	"github.com/mutagen-io/mutagen/pkg/synchronization/core"
	"github.com/mutagen-io/mutagen/pkg/synchronization/endpoint/remote"
	"github.com/mutagen-io/mutagen/pkg/synchronization/rsync"

	"verif/simkit"
)

func lastComponentScenarios(property string) []string {
	switch property {
	case "C21":
		return []string{"remote-diff", "remote-cut"}
	}
	return finalComponentScenarios(property)
}

func genLastComponents(p *simkit.Plan, r *simkit.Rand, tier string) {
	switch p.Scenario {
	case "remote-diff", "remote-cut":
		genRemote(p, r, tier)
	default:
		genFinalComponents(p, r, tier)
	}
}

func execLastComponents(t *testing.T, plan *simkit.Plan) *simkit.Result {
	switch plan.Scenario {
	case "remote-diff", "remote-cut":
		return execRemote(t, plan)
	}
	return execFinalComponents(t, plan)
}

// ------------------------------------------------------------ C21 remote-diff

func genRemote(p *simkit.Plan, r *simkit.Rand, tier string) {
	c := p.Cfg
	c["compression"] = int64(simkit.Pick(r, []int{0, 1, 2})) // default, none, deflate
	c["frag"] = int64(simkit.Pick(r, []int{1, 3, 64, 1500, 0}))
	c["short"] = int64(simkit.Pick(r, []int{0, 1, 7}))
	c["delay_us"] = int64(simkit.Pick(r, []int{0, 0, 200}))
	c["sched_sticky"] = int64(simkit.Pick(r, []int{0, 70}))
	var id int64 = 100
	// Source content (alpha) that destinations will be asked to take over.
	for i := r.Range(1, 6); i > 0; i-- {
		id++
		p.Ops = append(p.Ops, simkit.Op{Actor: "init", Kind: "putbig", N: []int64{id, int64(r.Intn(2)), int64(r.SmallBiased(9000))}, S: []string{"alpha", simkit.Pick(r, pathVocabulary)}})
	}
	// Destination content, applied identically to the local and remote roots.
	for i := r.Range(0, 6); i > 0; i-- {
		genEditOn(r, p, "mirror-init", &id, "beta")
	}
	n := r.Range(2, 10)
	if tier == "thorough" {
		n = r.Range(2, 25)
	}
	for i := 0; i < n; i++ {
		switch r.Weighted([]int{35, 30, 20, 8, 7, 5, 6, 5}) {
		case 6:
			// Calls a well-behaved controller never makes: a transition with an
			// empty list, or the previous list again without a new scan.
			p.Ops = append(p.Ops, simkit.Op{Actor: "driver", Kind: "xtransition", N: []int64{int64(r.Intn(2))}})
		case 7:
			// Staging out of turn: the previous request again (or an empty one)
			// without a new scan.
			p.Ops = append(p.Ops, simkit.Op{Actor: "driver", Kind: "xstage", N: []int64{int64(r.Intn(2))}})
		case 5:
			// The roots vanish, are scanned while absent, and return unchanged.
			p.Ops = append(p.Ops, simkit.Op{Actor: "driver", Kind: "scan", N: []int64{int64(r.Intn(2))}},
				simkit.Op{Actor: "driver", Kind: "vanish"},
				simkit.Op{Actor: "driver", Kind: "scan", N: []int64{int64(r.Intn(2))}},
				simkit.Op{Actor: "driver", Kind: "return"},
				simkit.Op{Actor: "driver", Kind: "scan", N: []int64{int64(r.Intn(2))}})
		case 0:
			genEditOn(r, p, "driver", &id, "beta")
		case 1:
			p.Ops = append(p.Ops, simkit.Op{Actor: "driver", Kind: "scan", N: []int64{int64(r.Intn(2))}})
		case 2:
			p.Ops = append(p.Ops, simkit.Op{Actor: "driver", Kind: "sync"}) // scan + stage + supply + transition towards alpha's content
		case 3:
			// (1: one of the files vanishes between the scan and the request)
			p.Ops = append(p.Ops, simkit.Op{Actor: "driver", Kind: "supply", N: []int64{int64(r.Intn(2))}})
		case 4:
			p.Ops = append(p.Ops, simkit.Op{Actor: "driver", Kind: "poll", N: []int64{int64(simkit.Pick(r, []int{1, 40}))}})
		}
	}
	p.Ops = append(p.Ops, simkit.Op{Actor: "driver", Kind: "scan", N: []int64{1}})
	if p.Scenario == "remote-cut" {
		p.Faults = append(p.Faults, simkit.Fault{Kind: "link_cut", Key: simkit.Pick(r, []string{"ab", "ba"}), Nth: 1, Arg: int64(r.Range(1, 6000))})
	}
}

// sim0 picks an index in [0,n) from the run seed (n >= 1).
func sim0(n int, seed uint64) int {
	if n <= 1 {
		return 0
	}
	return int(seed % uint64(n))
}

type memSink struct {
	mu    sync.Mutex
	files map[string]*bytes.Buffer
}
type memSinkFile struct{ *bytes.Buffer }

func (memSinkFile) Close() error { return nil }
func (m *memSink) Sink(path string) (io.WriteCloser, error) {
	m.mu.Lock()
	defer m.mu.Unlock()
	b := &bytes.Buffer{}
	m.files[path] = b
	return memSinkFile{b}, nil
}

func execRemote(t *testing.T, plan *simkit.Plan) *simkit.Result {
	var nontrivial bool
	res := simkit.Run(t, plan, simkit.Options{MaxSteps: 200000, Horizon: time.Hour, RealTimeout: 120 * time.Second}, func(s *simkit.Sim) {
		c := newComp(s, plan)
		defer c.close()
		c.rebuild(plan)
		// Mirror the destination content into the remote root.
		for _, op := range plan.Ops {
			if op.Actor == "mirror-init" {
				c.d.userOp(op)
			}
		}
		rmAll(c.d.roots["gamma"])
		copyTree(c.d.roots["beta"], c.d.roots["gamma"])
		cfg := &synchronization.Configuration{WatchMode: synchronization.WatchMode_WatchModeNoWatch, Ignores: []string{"*.ign"}}
		switch plan.C("compression") {
		case 1:
			cfg.CompressionAlgorithm = compression.Algorithm_AlgorithmNone
		case 2:
			cfg.CompressionAlgorithm = compression.Algorithm_AlgorithmDeflate
		}
		opts := simkit.LinkOpts{FragMax: int(plan.C("frag")), ShortMax: int(plan.C("short")), Delay: time.Duration(plan.C("delay_us")) * time.Microsecond}
		cut := false
		for _, f := range s.FaultsOfKind("link_cut") {
			opts.CutAt = map[string]int{f.Key: int(f.Arg)}
			cut = true
		}
		link := s.NewLink("agent", opts)
		var mu sync.Mutex
		done := false
		serverDone := false
		s.Go("server", func() {
			err := remote.ServeEndpoint(c.logger.Sublogger("server"), link.B)
			mu.Lock()
			serverDone = true
			mu.Unlock()
			s.Logf("server", "ServeEndpoint returned: %v", err != nil)
		})
		s.Go("driver", func() {
			defer func() { mu.Lock(); done = true; mu.Unlock() }()
			ctx := context.Background()
			src := c.endpoint("alpha", true, cfg)
			defer src.Shutdown()
			loc := c.endpoint("beta", false, cfg)
			defer loc.Shutdown()
			rem, err := remote.NewEndpoint(c.logger.Sublogger("client"), link.A, c.d.roots["gamma"], "sync_verifcomponentsession0000000000000000000001", synchronization.DefaultVersion, cfg, false)
			if err != nil {
				if !cut {
					s.Violate("C21", "remote-connect-failed", "NewEndpoint", "remote endpoint could not be created over a fault-free link: %v", err)
				}
				return
			}
			defer rem.Shutdown()
			remoteFailed := func(what string, err error) bool {
				if err == nil {
					return false
				}
				if !cut {
					s.Violate("C21", "remote-call-failed", what, "remote %s failed over a fault-free link: %v", what, err)
				} else {
					s.Count("probe.remote_failed_under_cut", 1)
				}
				return true
			}
			scanBoth := func(full bool) (*core.Snapshot, *core.Snapshot, bool) {
				ls, lerr, _ := loc.Scan(ctx, nil, full)
				rs, rerr, _ := rem.Scan(ctx, nil, full)
				if lerr != nil {
					return nil, nil, false
				}
				if remoteFailed("Scan", rerr) {
					return nil, nil, false
				}
				s.Count("probe.scans_compared", 1)
				if !snapshotMatches(ls.Content, rs.Content) || !snapshotMatches(rs.Content, ls.Content) {
					s.Violate("C21", "snapshot-differs", "Scan", "local scan %s, remote scan %s for mirrored roots", render(ls.Content), render(rs.Content))
					return nil, nil, false
				}
				if ls.PreservesExecutability != rs.PreservesExecutability || ls.DecomposesUnicode != rs.DecomposesUnicode || ls.Directories != rs.Directories || ls.Files != rs.Files || ls.SymbolicLinks != rs.SymbolicLinks || ls.TotalFileSize != rs.TotalFileSize {
					s.Violate("C21", "snapshot-metadata-differs", "Scan", "local (%v %v %d %d %d %d) vs remote (%v %v %d %d %d %d)", ls.PreservesExecutability, ls.DecomposesUnicode, ls.Directories, ls.Files, ls.SymbolicLinks, ls.TotalFileSize, rs.PreservesExecutability, rs.DecomposesUnicode, rs.Directories, rs.Files, rs.SymbolicLinks, rs.TotalFileSize)
					return nil, nil, false
				}
				// Independent check against the disk as well.
				if ref := c.d.walkTree("gamma"); !snapshotMatches(rs.Content, ref) {
					s.Violate("C21", "remote-snapshot-differs-from-disk", "Scan", "remote scan %s, disk %s", render(rs.Content), render(ref))
				}
				return ls, rs, true
			}
			var lastTransitions []*core.Change
			var lastPaths []string
			var lastDigests [][]byte
			for _, op := range plan.Ops {
				if op.Actor != "driver" || s.PassThrough() || s.Violated() {
					continue
				}
				s.Gate("driver", op.Kind)
				switch op.Kind {
				case "xtransition":
					ts := lastTransitions
					if op.Int(0) == 0 {
						ts = nil
					}
					lres, lprob, lmiss, lerr := loc.Transition(ctx, ts)
					rres, rprob, rmiss, rerr := rem.Transition(ctx, ts)
					s.Count("probe.out_of_turn_transitions_compared", 1)
					if lerr == nil && rerr != nil {
						if remoteFailed("Transition", rerr) {
							return
						}
						continue
					}
					if lerr != nil && rerr == nil {
						s.Violate("C21", "transition-error-differs", "Transition", "out-of-turn transition with %d changes: the local endpoint refuses it (%v), the remote one accepts it", len(ts), lerr)
						return
					}
					if lerr != nil {
						// Both refuse. The agent connection ends at the first
						// endpoint error (by design: the controller reconnects),
						// so there is nothing further to compare in this run.
						s.Count("probe.both_refused_out_of_turn", 1)
						return
					}
					if lerr == nil && (len(lres) != len(rres) || lmiss != rmiss || fmt.Sprint(problemPaths(lprob)) != fmt.Sprint(problemPaths(rprob))) {
						s.Violate("C21", "transition-results-differ", "Transition", "out-of-turn transition: local %d results missing=%v problems %v, remote %d results missing=%v problems %v", len(lres), lmiss, problemPaths(lprob), len(rres), rmiss, problemPaths(rprob))
						return
					}
					for i := range lres {
						if lerr == nil && !deepEqual(lres[i], rres[i]) {
							s.Violate("C21", "transition-results-differ", "Transition", "out-of-turn change at %q: local result %s, remote result %s", ts[i].Path, render(lres[i]), render(rres[i]))
						}
					}
				case "xstage":
					paths, digests := lastPaths, lastDigests
					if op.Int(0) == 1 {
						paths, digests = nil, nil
					}
					fl, sl, rl, lerr := loc.Stage(append([]string(nil), paths...), digests)
					fr, sr, rr, rerr := rem.Stage(append([]string(nil), paths...), digests)
					s.Count("probe.out_of_turn_stagings_compared", 1)
					s.Logf("driver", "out-of-turn Stage(%v): local needs %v (%v), remote needs %v (%v)", paths, fl, lerr, fr, rerr)
					if lerr == nil && rerr != nil {
						if remoteFailed("Stage", rerr) {
							return
						}
						continue
					}
					if lerr != nil && rerr == nil {
						s.Violate("C21", "staging-error-differs", "Stage", "out-of-turn staging of %d paths: the local endpoint refuses it (%v), the remote one accepts it", len(paths), lerr)
						return
					}
					if lerr != nil {
						s.Count("probe.both_refused_out_of_turn", 1)
						return
					}
					if lerr == nil && (fmt.Sprint(fl) != fmt.Sprint(fr) || len(sl) != len(sr)) {
						s.Violate("C21", "staging-requirements-differ", "Stage", "out-of-turn staging: local needs %v (%d signatures), remote needs %v (%d signatures)", fl, len(sl), fr, len(sr))
						return
					}
					if len(fl) > 0 {
						// An accepted staging request must be followed by the
						// file data (the receiver has to be driven to its end).
						if err := src.Supply(fl, sl, rl); err == nil {
							err := src.Supply(fr, sr, rr)
							s.Logf("driver", "out-of-turn staging supplied to both (remote: %v)", err)
							if err != nil && remoteFailed("Supply-to-remote", err) {
								return
							}
							// Supplying a remote endpoint returns when the data
							// has been sent, not when the agent has stored it. A
							// request that is answered only after the data was
							// handled (in turn, that is the Transition) keeps the
							// user's next action from landing in the middle of the
							// remote staging only - the twins would no longer see
							// the same history.
							for _, ep := range []synchronization.Endpoint{loc, rem} {
								pctx, cancel := context.WithTimeout(ctx, time.Millisecond+91*time.Microsecond)
								ep.Poll(pctx)
								cancel()
							}
						} else {
							s.Logf("driver", "out-of-turn staging: supplying the local endpoint failed: %v", err)
							return
						}
					}
				case "scan":
					if _, _, ok := scanBoth(op.Int(0) == 1); !ok {
						return
					}
					nontrivial = true
				case "poll":
					pctx, cancel := context.WithTimeout(ctx, time.Duration(op.Int(0))*time.Millisecond+91*time.Microsecond)
					lerr := loc.Poll(pctx)
					cancel()
					pctx, cancel = context.WithTimeout(ctx, time.Duration(op.Int(0))*time.Millisecond+91*time.Microsecond)
					rerr := rem.Poll(pctx)
					cancel()
					if lerr == nil && remoteFailed("Poll", rerr) {
						return
					}
					s.Count("probe.polls_compared", 1)
				case "supply":
					// Both endpoints supply the same files into memory sinks.
					ls, _, ok := scanBoth(true)
					if !ok {
						return
					}
					var paths []string
					walk(ls.Content, "", func(p string, e *core.Entry) {
						if e.Kind == core.EntryKind_File && len(paths) < 4 {
							paths = append(paths, p)
						}
					})
					if len(paths) == 0 {
						continue
					}
					if op.Int(0) == 1 && len(paths) >= 2 {
						// The supplier can no longer open one of the requested
						// files; the ones after it must still arrive.
						victim := paths[sim0(len(paths)-1, plan.Seed)]
						for _, side := range []string{"beta", "gamma"} {
							rmAll(filepath.Join(c.d.roots[side], victim))
						}
						s.Count("fault.supplied_file_vanished", 1)
					}
					sigs := make([]*rsync.Signature, len(paths))
					for i := range sigs {
						sigs[i] = &rsync.Signature{}
					}
					sinkL, sinkR := &memSink{files: map[string]*bytes.Buffer{}}, &memSink{files: map[string]*bytes.Buffer{}}
					recvL, _ := rsync.NewReceiver(c.d.base, paths, sigs, sinkL)
					recvR, _ := rsync.NewReceiver(c.d.base, paths, sigs, sinkR)
					lerr := loc.Supply(paths, sigs, recvL)
					rerr := rem.Supply(paths, sigs, recvR)
					if lerr != nil {
						continue
					}
					if remoteFailed("Supply", rerr) {
						return
					}
					for _, p := range paths {
						a, b := sinkL.files[p], sinkR.files[p]
						if (a == nil) != (b == nil) || (a != nil && !bytes.Equal(a.Bytes(), b.Bytes())) {
							s.Violate("C21", "supplied-data-differs", "Supply", "file %q supplied locally and remotely differs (local present %v, remote present %v)", p, a != nil, b != nil)
						}
					}
					s.Count("probe.supplies_compared", 1)
				case "sync":
					ss, serr, _ := src.Scan(ctx, nil, true)
					ls, rs, ok := scanBoth(true)
					if !ok || serr != nil || ss.Content == nil || ls.Content == nil || ss.Content.Kind != core.EntryKind_Directory || ls.Content.Kind != core.EntryKind_Directory {
						if !ok {
							return
						}
						continue
					}
					_ = rs
					transitions := topLevelPlan(ss.Content, ls.Content)
					if len(transitions) == 0 {
						continue
					}
					paths, digests := core.TransitionDependencies(transitions)
					lastTransitions, lastPaths, lastDigests = transitions, paths, digests
					if len(paths) > 0 {
						fl, sl, rl, lerr := loc.Stage(append([]string(nil), paths...), digests)
						fr, sr, rr, rerr := rem.Stage(append([]string(nil), paths...), digests)
						s.Logf("driver", "Stage(%v): local needs %v (%v), remote needs %v (%v)", paths, fl, lerr, fr, rerr)
						if lerr != nil {
							continue
						}
						if remoteFailed("Stage", rerr) {
							return
						}
						if fmt.Sprint(fl) != fmt.Sprint(fr) || len(sl) != len(sr) {
							s.Violate("C21", "staging-requirements-differ", "Stage", "local needs %v (%d signatures), remote needs %v (%d signatures)", fl, len(sl), fr, len(sr))
							return
						}
						for i := range sl {
							if len(sl[i].Hashes) != len(sr[i].Hashes) || sl[i].BlockSize != sr[i].BlockSize {
								s.Violate("C21", "signatures-differ", "Stage", "signature %d differs between local and remote", i)
							}
						}
						if len(fl) > 0 {
							if err := src.Supply(fl, sl, rl); err != nil {
								continue
							}
							if err := src.Supply(fr, sr, rr); err != nil {
								if remoteFailed("Supply-to-remote", err) {
									return
								}
							}
						}
						s.Count("probe.stagings_compared", 1)
					}
					lres, lprob, lmiss, lerr := loc.Transition(ctx, transitions)
					rres, rprob, rmiss, rerr := rem.Transition(ctx, transitions)
					if lerr != nil {
						if rerr == nil {
							s.Violate("C21", "transition-error-differs", "Transition", "local transition failed (%v), remote succeeded", lerr)
						}
						continue
					}
					if remoteFailed("Transition", rerr) {
						return
					}
					if len(lres) != len(rres) || lmiss != rmiss {
						s.Violate("C21", "transition-results-differ", "Transition", "local %d results missing=%v, remote %d results missing=%v", len(lres), lmiss, len(rres), rmiss)
						return
					}
					for i := range lres {
						if !deepEqual(lres[i], rres[i]) {
							s.Violate("C21", "transition-results-differ", "Transition", "change at %q: local result %s, remote result %s", transitions[i].Path, render(lres[i]), render(rres[i]))
						}
					}
					pl, pr := problemPaths(lprob), problemPaths(rprob)
					if fmt.Sprint(pl) != fmt.Sprint(pr) {
						s.Violate("C21", "transition-problems-differ", "Transition", "local problems at %v, remote problems at %v", pl, pr)
					}
					s.Count("probe.transitions_compared", 1)
					nontrivial = true
				case "vanish":
					// Both mirrored roots disappear (a volume unmounted)...
					for _, side := range []string{"beta", "gamma"} {
						os.Rename(c.d.roots[side], c.d.roots[side]+".away")
					}
					s.Count("probe.root_vanished", 1)
				case "return":
					// ... and come back exactly as they were.
					for _, side := range []string{"beta", "gamma"} {
						if _, err := os.Lstat(c.d.roots[side] + ".away"); err == nil {
							rmAll(c.d.roots[side])
							os.Rename(c.d.roots[side]+".away", c.d.roots[side])
						}
					}
				default:
					// A user edit, applied to both mirrors.
					c.d.userOp(op)
					g := op
					g.S = append([]string(nil), op.S...)
					g.S[0] = "gamma"
					c.d.userOp(g)
				}
			}
		})
		s.Loop(func() bool { mu.Lock(); defer mu.Unlock(); return done })
		s.Finish()
		link.A.Close()
		link.B.Close()
		s.WaitActors(time.Minute)
		mu.Lock()
		_ = serverDone
		mu.Unlock()
	})
	res.NonTrivial = nontrivial
	res.Fingerprint = res.JournalHash
	return res
}

func problemPaths(ps []*core.Problem) []string {
	var out []string
	for _, p := range ps {
		out = append(out, p.Path)
	}
	sort.Strings(out)
	return out
}
