package simkit

import (
	"crypto/rand"
	"encoding/binary"
	"fmt"
	"os"
	"path/filepath"
	"sort"
)

// MkdirTemp is os.MkdirTemp with a suffix of fixed width. The standard one
// appends a random number printed in decimal, i.e. of varying length; scratch
// paths end up inside protocol messages and saved files, whose sizes (bytes on
// a simulated link, pages on a small device) would then differ between two
// executions of the same seed.
func MkdirTemp(parent, prefix string) (string, error) {
	var err error
	for try := 0; try < 100; try++ {
		var b [8]byte
		rand.Read(b[:])
		name := filepath.Join(parent, fmt.Sprintf("%s%010d", prefix, binary.LittleEndian.Uint64(b[:])%10000000000))
		if err = os.Mkdir(name, 0o700); err == nil {
			return name, nil
		}
		if !os.IsExist(err) {
			return "", err
		}
	}
	return "", err
}

// SeedOrderUint64 returns a function that arranges identifiers in an order that
// is a pure function of the run seed and the identifiers (for the ordering hooks
// of the code under test, which stand in for the runtime's map order).
func SeedOrderUint64(seed uint64) func(ids []uint64) {
	key := func(id uint64) uint64 {
		h := (seed ^ id*0x9e3779b97f4a7c15) * 0xbf58476d1ce4e5b9
		h ^= h >> 31
		return h * 0xd6e8feb86659fd93
	}
	return func(ids []uint64) {
		sort.Slice(ids, func(a, b int) bool {
			ka, kb := key(ids[a]), key(ids[b])
			if ka != kb {
				return ka < kb
			}
			return ids[a] < ids[b]
		})
	}
}
