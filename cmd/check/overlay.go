package main

import (
	"encoding/json"
	"fmt"
	"os"
	"os/exec"
	"path/filepath"
	"strings"
)

// The runtime overlay. The one source of nondeterminism that no seam in mutagen
// or in the harness reaches is the Go runtime's own choice among several ready
// cases of a select statement (it shuffles the poll order with a per-thread
// random state). The engines are therefore linked against a copy of
// runtime/select.go, derived at build time from the toolchain's own file by
// the three textual edits below (go build -overlay; the toolchain on disk is
// not touched): when the harness has set a seed, the poll order is a function
// of that seed, the select statement (its program counter) and the number of
// select statements the goroutine has run so far (a counter added to the
// goroutine descriptor, zeroed when a goroutine is created).
// If the toolchain's file does not have the expected shape, the engines are
// built without the overlay (and say so in the evidence): checks keep working,
// replays are merely less exact.

type overlayEdit struct{ anchor, replacement string }

// autoYieldSites is the number of yield sites the last build inserted.
var autoYieldSites int

var selectEdits = []overlayEdit{
	{"import (\n\t\"internal/abi\"\n", "import (\n\t\"internal/abi\"\n\t\"internal/runtime/atomic\"\n"},
	{"\tgp := getg()\n\tif debugSelect {\n\t\tprint(\"select: cas0=\", cas0, \"\\n\")\n\t}\n", "\tgp := getg()\n\tif debugSelect {\n\t\tprint(\"select: cas0=\", cas0, \"\\n\")\n\t}\n" + `
	// Verification overlay: when a harness has set a seed, the order in which
	// ready cases are polled is a function of the seed, the select statement
	// and the number of selects this goroutine has run, not of the per-thread
	// random state.
	var verifState uint64
	if seed := atomic.Load64(&verifSelectSeed); seed != 0 {
		pc := uint64(sys.GetCallerPC())
		gp.verifSelects++
		verifState = (seed ^ pc*0x9e3779b97f4a7c15) + gp.verifSelects*0xbf58476d1ce4e5b9
		verifState ^= verifState >> 31
		verifState *= 0xd6e8feb86659fd93
		verifState |= 1
	}
`},
	{"\t\tj := cheaprandn(uint32(norder + 1))\n", `		j := cheaprandn(uint32(norder + 1))
		if verifState != 0 {
			verifState ^= verifState << 13
			verifState ^= verifState >> 7
			verifState ^= verifState << 17
			j = uint32((verifState >> 11) % uint64(norder+1))
		}
`},
}

const selectTail = `
// verifSelectSeed belongs to the verification overlay (see selectgo; the count
// of select statements a goroutine has run is g.verifSelects, zero in every new
// goroutine). verifSelectReset is called by the harness through linkname.
var verifSelectSeed uint64

//go:linkname verifSelectReset
func verifSelectReset(seed uint64) {
	getg().verifSelects = 0
	atomic.Store64(&verifSelectSeed, seed)
}
`

// The second source of the same kind is the iteration order of Go maps: every
// map gets a random hash seed, every iteration a random starting point, and the
// hash function a random key per process. With the overlay, while a harness seed
// is set, map seeds and starting points are a function of that seed
// (runtime.maps_rand), and the hash key of the process is a constant
// (runtime.alginit): a map that saw the same insertions iterates in the same
// order in every execution of one seed, and in another order under another seed.
var randEdits = []overlayEdit{
	// (rand itself is what compiler-generated code calls for the hash seed of a
	// map whose header lives on the stack - and what os and math/rand reach
	// through linkname for temporary names and seeding, which must stay random.
	// The two are told apart by the caller: only calls made from functions of
	// the code under test or of the harness, on a goroutine's own stack, get
	// the seeded value.)
	{"func rand() uint64 {\n", `func rand() uint64 {
	if seed := verifSelectSeed; seed != 0 {
		if gp := getg(); gp != nil && gp.m != nil && gp == gp.m.curg && verifUserPC(sys.GetCallerPC()) {
			seed *= 0x9e3779b97f4a7c15
			seed ^= seed >> 32
			return seed * 0xbf58476d1ce4e5b9
		}
	}
`},
	{"import (\n\t\"internal/byteorder\"\n", "import (\n\t\"internal/byteorder\"\n\t\"internal/runtime/sys\"\n"},
	// (rand32 is what compiler-generated code calls for the hash seed of a
	// map whose header lives on the stack.)
	{"func rand32() uint32 {\n\treturn uint32(rand())\n}\n", `func rand32() uint32 {
	if seed := verifSelectSeed; seed != 0 {
		seed *= 0x9e3779b97f4a7c15
		seed ^= seed >> 32
		return uint32((seed * 0xbf58476d1ce4e5b9) >> 16)
	}
	return uint32(rand())
}
`},
	{"func maps_rand() uint64 {\n\treturn rand()\n}\n", `func maps_rand() uint64 {
	if seed := verifSelectSeed; seed != 0 {
		seed *= 0x9e3779b97f4a7c15
		seed ^= seed >> 32
		return seed * 0xbf58476d1ce4e5b9
	}
	return rand()
}
`},
}

var algEdits = []overlayEdit{
	{"\tfor i := range hashkey {\n\t\thashkey[i] = uintptr(bootstrapRand())\n\t}\n", "\tfor i := range hashkey {\n\t\thashkey[i] = uintptr(uint64(i+1) * 0x9e3779b97f4a7c15) // verification overlay: fixed key\n\t}\n"},
	{"\tfor i := range key {\n\t\tkey[i] = bootstrapRand()\n\t}\n", "\tfor i := range key {\n\t\tkey[i] = uint64(i+1) * 0x9e3779b97f4a7c15 // verification overlay: fixed key\n\t}\n"},
}

const randTail = `
// verifUserPC reports whether pc lies in a function of the code under test or of
// the verification harness (verification overlay, see rand).
func verifUserPC(pc uintptr) bool {
	f := findfunc(pc)
	if !f.valid() {
		return false
	}
	name := funcname(f)
	return len(name) > 22 && name[:22] == "github.com/mutagen-io/" || len(name) > 6 && name[:6] == "verif/"
}
` + "\n"

type overlayFile struct {
	name  string
	edits []overlayEdit
	tail  string
}

var gEdits = []overlayEdit{
	{"\tvalgrindStackID uintptr\n}\n", "\tvalgrindStackID uintptr\n\n\t// verifSelects counts the select statements this goroutine has run\n\t// (verification overlay, see selectgo).\n\tverifSelects uint64\n}\n"},
}

var procEdits = []overlayEdit{
	{"\tnewg.parentGoid = callergp.goid\n", "\tnewg.parentGoid = callergp.goid\n\tnewg.verifSelects = 0 // verification overlay: descriptors are recycled\n"},
}

var overlayFiles = []overlayFile{
	{"select.go", selectEdits, selectTail},
	{"runtime2.go", gEdits, ""},
	{"proc.go", procEdits, ""},
	{"rand.go", randEdits, randTail},
	{"alg.go", algEdits, ""},
}

// prepareOverlay writes .build/overlay/{*.go,overlay.json} and returns the
// path of the JSON file, or "" with the reason when the overlay cannot be made.
func prepareOverlay(root string) (string, string) {
	if os.Getenv("VERIF_NO_OVERLAY") == "1" {
		return "", "disabled by VERIF_NO_OVERLAY"
	}
	cmd := exec.Command(goTool, "env", "GOROOT")
	cmd.Env = goEnv()
	out, err := cmd.Output()
	if err != nil {
		return "", fmt.Sprintf("go env GOROOT: %v", err)
	}
	dir := filepath.Join(root, ".build", "overlay")
	os.MkdirAll(dir, 0o755)
	replace := map[string]string{}
	for _, f := range overlayFiles {
		src := filepath.Join(strings.TrimSpace(string(out)), "src", "runtime", f.name)
		data, err := os.ReadFile(src)
		if err != nil {
			return "", err.Error()
		}
		text := string(data)
		for _, e := range f.edits {
			if strings.Count(text, e.anchor) != 1 {
				return "", fmt.Sprintf("%s does not have the expected shape (anchor %q)", src, strings.TrimSpace(e.anchor))
			}
			text = strings.Replace(text, e.anchor, e.replacement, 1)
		}
		text += f.tail
		dst := filepath.Join(dir, f.name)
		if old, err := os.ReadFile(dst); err != nil || string(old) != text {
			if err := os.WriteFile(dst, []byte(text), 0o644); err != nil {
				return "", err.Error()
			}
		}
		replace[src] = dst
	}
	if n, err := autoYieldFiles(root, dir, replace); err != nil {
		fmt.Printf("note: no automatic yield sites (%v)\n", err)
	} else {
		autoYieldSites = n
	}
	cfg, _ := json.Marshal(map[string]any{"Replace": replace})
	js := filepath.Join(dir, "overlay.json")
	if old, err := os.ReadFile(js); err != nil || string(old) != string(cfg) {
		if err := os.WriteFile(js, cfg, 0o644); err != nil {
			return "", err.Error()
		}
	}
	return js, ""
}
