package syncsim

import (
	"bytes"
	"context"
	"crypto/sha1"
	"fmt"
	"os"
	"path/filepath"
	"sort"
	"strings"
	"sync"
	"testing"
	"time"

	"github.com/mutagen-io/mutagen/pkg/filesystem/behavior"
	"github.com/mutagen-io/mutagen/pkg/synchronization"
	"github.com/mutagen-io/mutagen/pkg/synchronization/core"
	"github.com/mutagen-io/mutagen/pkg/synchronization/core/ignore"
	mutagenignore "github.com/mutagen-io/mutagen/pkg/synchronization/core/ignore/mutagen"

	"verif/simkit"
)

func sha1Sum(b []byte) []byte { s := sha1.Sum(b); return s[:] }

func moreComponentScenarios(property string) []string {
	switch property {
	case "C13":
		return []string{"scanacc"}
	case "C41":
		return []string{"stage"}
	case "C42":
		return []string{"poll"}
	}
	return evenMoreComponentScenarios(property)
}

func genMoreComponents(p *simkit.Plan, r *simkit.Rand, tier string) {
	switch p.Scenario {
	case "scanacc":
		genScanAcc(p, r, tier)
	case "stage":
		genStage(p, r, tier)
	case "poll":
		genPoll(p, r, tier)
	default:
		genEvenMoreComponents(p, r, tier)
	}
}

func execMoreComponents(t *testing.T, plan *simkit.Plan) *simkit.Result {
	switch plan.Scenario {
	case "scanacc":
		return execScanAcc(t, plan)
	case "stage":
		return execStage(t, plan)
	case "poll":
		return execPoll(t, plan)
	}
	return execEvenMoreComponents(t, plan)
}

// ------------------------------------------------------- C13 accelerated scans

func genScanAcc(p *simkit.Plan, r *simkit.Rand, tier string) {
	var id int64 = 100
	for i := r.Range(1, 10); i > 0; i-- {
		genEditOn(r, p, "init", &id, "beta")
	}
	rounds := r.Range(1, 6)
	if tier == "thorough" {
		rounds = r.Range(1, 15)
	}
	for k := 0; k < rounds; k++ {
		for i := r.Range(1, 4); i > 0; i-- {
			genEditOn(r, p, "user", &id, "beta")
		}
		// extra recheck paths beyond the changed ones
		p.Ops = append(p.Ops, simkit.Op{Actor: "user", Kind: "round", N: []int64{int64(r.Intn(3))}, S: []string{"beta", simkit.Pick(r, pathVocabulary)}})
	}
}

// genEditOn draws an edit for one fixed side, including the operations the
// accelerated-scan special cases care about.
func genEditOn(r *simkit.Rand, p *simkit.Plan, actor string, id *int64, side string) {
	path := simkit.Pick(r, pathVocabulary)
	switch r.Weighted([]int{30, 10, 6, 15, 8, 8, 6, 5}) {
	case 0:
		*id++
		p.Ops = append(p.Ops, simkit.Op{Actor: actor, Kind: "put", N: []int64{*id, int64(r.Intn(2))}, S: []string{side, path}})
	case 1:
		p.Ops = append(p.Ops, simkit.Op{Actor: actor, Kind: "mkdir", S: []string{side, path}})
	case 2:
		p.Ops = append(p.Ops, simkit.Op{Actor: actor, Kind: "link", S: []string{side, path, simkit.Pick(r, []string{"a", "../b", "c/b"})}})
	case 3:
		p.Ops = append(p.Ops, simkit.Op{Actor: actor, Kind: "del", S: []string{side, path}})
	case 4:
		p.Ops = append(p.Ops, simkit.Op{Actor: actor, Kind: "chmod", S: []string{side, path}})
	case 5:
		*id++
		p.Ops = append(p.Ops, simkit.Op{Actor: actor, Kind: "edit", N: []int64{*id, int64(simkit.Pick(r, []int{0, 0, 1, 2, 2}))}, S: []string{side, path}})
	case 6:
		p.Ops = append(p.Ops, simkit.Op{Actor: actor, Kind: "untracked", S: []string{side, path}})
	case 7:
		*id++
		p.Ops = append(p.Ops, simkit.Op{Actor: actor, Kind: "ignored", N: []int64{*id}, S: []string{side, path}})
	}
}

// changedPaths lists every path whose entry differs between two trees.
func changedPaths(a, b *core.Entry) map[string]bool {
	out := map[string]bool{}
	seen := map[string]bool{}
	walk(a, "", func(p string, _ *core.Entry) { seen[p] = true })
	walk(b, "", func(p string, _ *core.Entry) { seen[p] = true })
	for p := range seen {
		if !shallowEqual(lookup(a, p), lookup(b, p)) {
			out[p] = true
		}
	}
	return out
}

func execScanAcc(t *testing.T, plan *simkit.Plan) *simkit.Result {
	var nontrivial bool
	res := simkit.Run(t, plan, simkit.Options{MaxSteps: 1000, Horizon: time.Hour}, func(s *simkit.Sim) {
		c := newComp(s, plan)
		defer c.close()
		c.rebuild(plan)
		root := c.d.roots["beta"]
		ignorer, err := mutagenignore.NewIgnorer([]string{"*.ign"})
		if err != nil {
			panic(err)
		}
		ctx := context.Background()
		scan := func(baseline *core.Snapshot, recheck map[string]bool, cache *core.Cache, ic ignore.IgnoreCache) (*core.Snapshot, *core.Cache, ignore.IgnoreCache, error) {
			return core.Scan(ctx, root, baseline, recheck, sha1.New(), cache, ignorer, ic,
				behavior.ProbeMode_ProbeModeProbe, core.SymbolicLinkMode_SymbolicLinkModePortable, core.PermissionsMode_PermissionsModePortable)
		}
		same := func(what string, a, b *core.Snapshot) {
			if a == nil || b == nil {
				return
			}
			if !snapshotMatches(a.Content, b.Content) || !snapshotMatches(b.Content, a.Content) {
				s.Violate("C13", "accelerated-differs", what, "%s scan returned %s, a cold scan returns %s", what, render(a.Content), render(b.Content))
			} else if a.Directories != b.Directories || a.Files != b.Files || a.SymbolicLinks != b.SymbolicLinks || a.TotalFileSize != b.TotalFileSize || a.PreservesExecutability != b.PreservesExecutability {
				s.Violate("C13", "accelerated-counts-differ", what, "%s scan counts (%d dirs, %d files, %d links, %d bytes) differ from the cold scan's (%d, %d, %d, %d)", what, a.Directories, a.Files, a.SymbolicLinks, a.TotalFileSize, b.Directories, b.Files, b.SymbolicLinks, b.TotalFileSize)
			}
		}
		prev, cache, ic, err := scan(nil, nil, &core.Cache{}, nil)
		if err != nil {
			s.Violate("C13", "cold-scan-error", "cold", "cold scan failed: %v", err)
			return
		}
		before := c.d.walkTree("beta")
		for _, op := range plan.Ops {
			if op.Actor != "user" {
				continue
			}
			if op.Kind != "round" {
				c.d.userOp(op)
				continue
			}
			after := c.d.walkTree("beta")
			recheck := changedPaths(before, after)
			if op.Int(0) > 0 {
				recheck[op.Str(1)] = true // an extra, unchanged path
			}
			if op.Int(0) > 1 {
				recheck[""] = true
			}
			before = after
			s.Count("probe.rounds", 1)
			if len(recheck) == 0 {
				s.Count("probe.rounds_without_changes", 1)
			}
			acc, newCache, newIC, err := scan(prev, recheck, cache, ic)
			if err != nil {
				cls := "accelerated"
				if strings.Contains(err.Error(), "old cache entries") {
					cls = "old-cache-entries"
				}
				s.Violate("C13", "accelerated-scan-error", cls, "accelerated scan with %d recheck paths failed on honest inputs: %v", len(recheck), err)
				return
			}
			cold, _, _, err := scan(nil, nil, &core.Cache{}, nil)
			if err != nil {
				s.Violate("C13", "cold-scan-error", "cold", "cold scan failed: %v", err)
				return
			}
			same("accelerated", acc, cold)
			if !snapshotMatches(cold.Content, after) {
				s.Violate("C12", "snapshot-differs", "scanacc-cold", "cold scan %s differs from the walker %s", render(cold.Content), render(after))
			}
			// The returned caches must be sufficient for a further accelerated
			// scan that rechecks something unrelated.
			again, _, _, err := scan(acc, map[string]bool{op.Str(1): true}, newCache, newIC)
			if err != nil {
				s.Violate("C13", "accelerated-scan-error", "second-accelerated", "second accelerated scan failed: %v", err)
				return
			}
			same("second accelerated", again, cold)
			prev, cache, ic = acc, newCache, newIC
			nontrivial = true
			if s.Violated() {
				return
			}
		}
		s.Logf("scanacc", "ok: %s", render(prev.Content))
	})
	res.NonTrivial = nontrivial
	res.Fingerprint = res.JournalHash
	return res
}

// ------------------------------------------------------------------ C41 stage

func genStage(p *simkit.Plan, r *simkit.Rand, tier string) {
	c := p.Cfg
	var id int64 = 100
	// Source content (alpha) and destination content (beta) with duplicates.
	for i := r.Range(2, 8); i > 0; i-- {
		id++
		content := id
		if r.Chance(1, 3) {
			content = 100 + int64(r.Range(1, 4)) // shared content
		}
		p.Ops = append(p.Ops, simkit.Op{Actor: "init", Kind: "put", N: []int64{content, int64(r.Intn(2))}, S: []string{"alpha", simkit.Pick(r, pathVocabulary)}})
	}
	for i := r.Range(0, 6); i > 0; i-- {
		id++
		content := id
		if r.Chance(1, 2) {
			content = 100 + int64(r.Range(1, 4))
		}
		p.Ops = append(p.Ops, simkit.Op{Actor: "init", Kind: "put", N: []int64{content, 0}, S: []string{"beta", simkit.Pick(r, append([]string{"copy1", "copy2", "x/copy"}, pathVocabulary...))}})
	}
	c["max_entries"] = int64(simkit.Pick(r, []int{0, 0, 3, 6, 12}))
	c["prestage"] = int64(r.Intn(2))
	c["order"] = int64(r.Intn(5)) // 0 normal, 1 stage before scan, 2 transition before scan, 3 stage twice, 4 transition twice
	c["shuffle"] = int64(r.Uint64() >> 1)
	c["internal_staging"] = int64(r.Intn(2))
	c["edit_between"] = int64(r.Intn(3) / 2)
	c["second_round"] = int64(r.Intn(2))
}

func countEntries(e *core.Entry) int {
	n := 0
	walk(e, "", func(_ string, x *core.Entry) {
		if !unsyncKind(x.Kind) {
			n++
		}
	})
	return n
}

func execStage(t *testing.T, plan *simkit.Plan) *simkit.Result {
	var nontrivial bool
	res := simkit.Run(t, plan, simkit.Options{MaxSteps: 1000, Horizon: time.Hour}, func(s *simkit.Sim) {
		c := newComp(s, plan)
		defer c.close()
		c.rebuild(plan)
		cfg := &synchronization.Configuration{
			WatchMode:         synchronization.WatchMode_WatchModeNoWatch,
			Ignores:           []string{"*.ign"},
			MaximumEntryCount: uint64(plan.C("max_entries")),
		}
		if plan.C("internal_staging") == 1 {
			cfg.StageMode = synchronization.StageMode_StageModeInternal
		}
		ctx := context.Background()
		src := c.endpoint("alpha", true, cfg)
		dst := c.endpoint("beta", false, cfg)
		defer src.Shutdown()
		defer dst.Shutdown()
		ss, err, _ := src.Scan(ctx, nil, true)
		if err != nil {
			s.Logf("driver", "source scan refused: %v", err)
			if !strings.Contains(err.Error(), "exceeded allowed entry count") {
				s.Violate("C41", "scan-error", "Scan", "source scan failed: %v", err)
			}
			return
		}
		order := plan.C("order")
		limit := int(plan.C("max_entries"))
		before := c.d.walkTree("beta")
		if order == 1 {
			if _, _, _, err := dst.Stage([]string{"a"}, [][]byte{digestOf(1)}); err == nil {
				s.Violate("C41", "stage-without-scan", "Stage", "Stage was accepted without a preceding scan")
			}
			s.Count("probe.stage_without_scan_refused", 1)
		}
		if order == 2 {
			if _, _, _, err := dst.Transition(ctx, []*core.Change{{Path: "zz", New: dirEntry()}}); err == nil {
				s.Violate("C41", "transition-without-scan", "Transition", "Transition was accepted without a preceding scan")
			}
			if after := c.d.walkTree("beta"); !deepEqual(before, after) {
				s.Violate("C41", "refusal-changed-disk", "Transition", "a refused Transition changed the root")
			}
			s.Count("probe.transition_without_scan_refused", 1)
		}
		ds, err, _ := dst.Scan(ctx, nil, true)
		if err != nil {
			if limit > 0 && countEntries(before) > limit {
				s.Count("probe.scan_refused_over_limit", 1)
				// A scan that was refused is no scan: neither staging nor a
				// transition may follow it, and nothing may be added to a root
				// that is already past its limit.
				if _, _, _, serr := dst.Stage([]string{"zz-new-1", "zz-new-2"}, [][]byte{digestOf(1), digestOf(2)}); serr == nil {
					s.Violate("C41", "stage-after-refused-scan", "Stage", "the scan was refused (%d entries, limit %d) and Stage of 2 more files was accepted all the same", countEntries(before), limit)
				}
				if _, _, _, terr := dst.Transition(ctx, []*core.Change{{Path: "zz-dir", New: dirEntry()}}); terr == nil {
					s.Violate("C41", "transition-after-refused-scan", "Transition", "the scan was refused (%d entries, limit %d) and a Transition was accepted all the same", countEntries(before), limit)
				}
				if after := c.d.walkTree("beta"); !deepEqual(before, after) {
					s.Violate("C41", "refusal-changed-disk", "Transition", "calls after a refused scan changed the root")
				}
				return
			}
			s.Violate("C41", "scan-error", "Scan", "destination scan failed: %v", err)
			return
		}
		if limit > 0 && countEntries(before) > limit {
			s.Violate("C41", "limit-not-enforced", "Scan", "a root with %d entries was scanned although the limit is %d", countEntries(before), limit)
		}
		if ss.Content == nil || ds.Content == nil || ss.Content.Kind != core.EntryKind_Directory || ds.Content.Kind != core.EntryKind_Directory {
			return
		}
		transitions := topLevelPlan(ss.Content, ds.Content)
		// Only creations and replacements (keeps the focus on staging).
		paths, digests := core.TransitionDependencies(transitions)
		if len(paths) == 0 {
			return
		}
		// Request in a seeded order.
		sr := simkit.NewRand(uint64(plan.C("shuffle")), 5)
		for i := len(paths) - 1; i > 0; i-- {
			j := sr.Intn(i + 1)
			paths[i], paths[j] = paths[j], paths[i]
			digests[i], digests[j] = digests[j], digests[i]
		}
		// Digests present in the destination root at scan time.
		inRoot := map[string]bool{}
		walk(before, "", func(_ string, x *core.Entry) {
			if x.Kind == core.EntryKind_File {
				inRoot[string(x.Digest)] = true
			}
		})
		staged := map[string]bool{} // path|digest already staged
		if plan.C("prestage") == 1 && len(paths) > 1 {
			// An interrupted earlier staging left the first half staged.
			half := len(paths) / 2
			f, sigs, recv, err := dst.Stage(append([]string(nil), paths[:half]...), digests[:half])
			if err == nil && len(f) > 0 {
				if err := src.Supply(f, sigs, recv); err != nil {
					s.Logf("driver", "pre-staging supply failed: %v", err)
				}
			}
			if err == nil {
				for i := 0; i < half; i++ {
					staged[paths[i]+"|"+string(digests[i])] = true
				}
				s.Count("probe.prestaged", 1)
			}
			// A new scan re-arms staging.
			if _, err, _ := dst.Scan(ctx, nil, true); err != nil {
				return
			}
		}
		// Scan-time digests of which one copy was rewritten after the scan: the
		// endpoint remembers one path per digest, so it may find the rewritten
		// copy and ask for the data although another copy still exists (the
		// property only says when content MAY be treated as available).
		editedDigests := map[string]bool{}
		if plan.C("edit_between") == 1 {
			// Between the scan and the staging request the user rewrites, in
			// place and at the same size, root files whose scan-time content
			// the request names: that content is no longer in the root.
			wanted := map[string]bool{}
			for _, d := range digests {
				wanted[string(d)] = true
			}
			var victims []string
			walk(before, "", func(p string, x *core.Entry) {
				if x.Kind == core.EntryKind_File && wanted[string(x.Digest)] {
					victims = append(victims, p)
				}
			})
			sort.Strings(victims)
			for k, v := range victims {
				if sr.Chance(2, 3) {
					editedDigests[string(lookup(before, v).Digest)] = true
					c.d.userOp(simkit.Op{Actor: "user", Kind: "edit", N: []int64{int64(900 + k), int64(sr.Intn(2))}, S: []string{"beta", v}})
					s.Count("probe.edited_between_scan_and_stage", 1)
				}
			}
			before = c.d.walkTree("beta")
			inRoot = map[string]bool{}
			walk(before, "", func(_ string, x *core.Entry) {
				if x.Kind == core.EntryKind_File {
					inRoot[string(x.Digest)] = true
				}
			})
		}
		request := append([]string(nil), paths...)
		filtered, sigs, recv, err := dst.Stage(append([]string(nil), paths...), digests)
		entriesNow := countEntries(before)
		if err != nil {
			if limit > 0 && entriesNow+len(paths) > limit {
				s.Count("probe.stage_refused_over_limit", 1)
				if after := c.d.walkTree("beta"); !deepEqual(before, after) {
					s.Violate("C41", "refusal-changed-disk", "Stage", "a refused Stage changed the root")
				}
				return
			}
			s.Violate("C41", "stage-error", "Stage", "Stage failed: %v", err)
			return
		}
		nontrivial = true
		if limit > 0 && entriesNow+len(paths) > limit {
			s.Violate("C41", "limit-not-enforced", "Stage", "Stage of %d files was accepted with %d entries in the root and a limit of %d", len(paths), entriesNow, limit)
		}
		// (1) subsequence of the request.
		j := 0
		for _, f := range filtered {
			for j < len(request) && request[j] != f {
				j++
			}
			if j == len(request) {
				s.Violate("C41", "not-a-subsequence", "Stage", "returned paths %v are not a subsequence of the request %v", filtered, request)
				break
			}
			j++
		}
		// (2) omitted <=> content available (already staged for that path, or
		// a file with that digest in the root at the last scan).
		need := map[string]bool{}
		for _, f := range filtered {
			need[f] = true
		}
		for i, p := range request {
			available := staged[p+"|"+string(digests[i])] || inRoot[string(digests[i])]
			// A digest requested twice becomes available once staged for an
			// earlier path only if that path is the same; copies in the
			// root are the only cross-path source.
			if need[p] && available && !editedDigests[string(digests[i])] {
				s.Violate("C41", "requested-although-available", "Stage", "file %q (digest %x) was requested although its content is already staged or present in the root", p, digests[i][:4])
			}
			if !need[p] && !available {
				s.Violate("C41", "omitted-although-missing", "Stage", "file %q (digest %x) was omitted from the staging request although its content is neither staged nor present in the root", p, digests[i][:4])
			}
			if !need[p] {
				s.Count("probe.omitted_available", 1)
			}
		}
		if order == 3 {
			if _, _, _, err := dst.Stage([]string{"again"}, [][]byte{digestOf(7)}); err == nil {
				s.Violate("C41", "stage-without-scan", "Stage", "a second Stage after one scan was accepted")
			}
			s.Count("probe.second_stage_refused", 1)
		}
		if len(filtered) > 0 {
			if err := src.Supply(filtered, sigs, recv); err != nil {
				s.Violate("C41", "supply-error", "Supply", "Supply failed: %v", err)
				return
			}
		}
		results, problems, missing, err := dst.Transition(ctx, transitions)
		if err != nil {
			s.Violate("C41", "transition-error", "Transition", "Transition failed: %v", err)
			return
		}
		after := c.d.walkTree("beta")
		// (The endpoint budgets for the removals it was asked to make; when the
		// user's rewrite after the scan makes it refuse one of them, what stays
		// behind is the user's, not something the transition added.)
		refusedAfterEdit := plan.C("edit_between") == 1 && len(problems) > 0
		if limit > 0 && countEntries(after) > limit && !refusedAfterEdit {
			s.Violate("C41", "limit-exceeded", "Transition", "after the transition the root holds %d entries, the limit is %d", countEntries(after), limit)
		}
		if len(problems) == 0 && !missing {
			for i, tr := range transitions {
				if !deepEqual(results[i], tr.New) {
					s.Violate("C10", "silent-failure", "component-stage", "transition at %q ended as %s instead of %s without problems or missing files", tr.Path, render(results[i]), render(tr.New))
				}
			}
		}
		if order == 4 {
			if _, _, _, err := dst.Transition(ctx, []*core.Change{{Path: "zz2", New: dirEntry()}}); err == nil {
				s.Violate("C41", "transition-without-scan", "Transition", "a second Transition after one scan was accepted")
			}
			s.Count("probe.second_transition_refused", 1)
		}
		s.Logf("stage", "requested %d, needed %d", len(request), len(filtered))
		if plan.C("second_round") == 1 && order == 0 && err == nil {
			// A second cycle on the same endpoint: the user deletes some of the
			// files the first one placed, and the same content is asked for at
			// the same paths again. What the first cycle staged was wiped when
			// its transition ended: unless another copy is in the root, the
			// data has to be requested again.
			var paths2 []string
			var digests2 [][]byte
			for i, p := range request {
				if e := lookup(after, p); e != nil && e.Kind == core.EntryKind_File && bytes.Equal(e.Digest, digests[i]) && sr.Chance(2, 3) {
					rmAll(filepath.Join(c.d.roots["beta"], p))
					paths2, digests2 = append(paths2, p), append(digests2, digests[i])
				}
			}
			if len(paths2) == 0 {
				return
			}
			if _, err, _ := dst.Scan(ctx, nil, true); err != nil {
				return
			}
			now := c.d.walkTree("beta")
			inRoot2 := map[string]bool{}
			walk(now, "", func(_ string, x *core.Entry) {
				if x.Kind == core.EntryKind_File {
					inRoot2[string(x.Digest)] = true
				}
			})
			f2, sigs2, recv2, err := dst.Stage(append([]string(nil), paths2...), digests2)
			if err != nil {
				s.Count("probe.second_round_stage_refused", 1)
				return
			}
			s.Count("probe.second_round_stagings", 1)
			need2 := map[string]bool{}
			for _, f := range f2 {
				need2[f] = true
			}
			for i, p := range paths2 {
				if !need2[p] && !inRoot2[string(digests2[i])] {
					s.Violate("C41", "omitted-although-missing", "Stage-second-cycle", "second cycle: file %q (digest %x) was omitted from the staging request although nothing is staged any more (the first cycle's transition ended) and no file with that content is in the root", p, digests2[i][:4])
				}
			}
			if len(f2) > 0 {
				if err := src.Supply(f2, sigs2, recv2); err != nil {
					s.Logf("driver", "second-cycle supply failed: %v", err)
				}
			}
		}
	})
	res.NonTrivial = nontrivial
	res.Fingerprint = res.JournalHash
	return res
}

// ------------------------------------------------------------------- C42 poll

func genPoll(p *simkit.Plan, r *simkit.Rand, tier string) {
	c := p.Cfg
	c["fs_gates"] = int64(simkit.Pick(r, []int{0, 32, 33, 35, 2}))
	c["sched_sticky"] = int64(simkit.Pick(r, []int{0, 50}))
	// Stalls: the controller's transition (or scan) stays parked at a system
	// call while polling ticks fire and the poller scans in between.
	if c["fs_gates"] != 0 {
		c["sched_stall"] = int64(simkit.Pick(r, []int{0, 30, 100}))
	}
	var id int64 = 100
	for i := r.Range(0, 4); i > 0; i-- {
		genEditOn(r, p, "init", &id, "beta")
	}
	n := r.Range(3, 14)
	for i := 0; i < n; i++ {
		switch r.Weighted([]int{30, 25, 15, 30}) {
		case 0:
			genEditOn(r, p, "user", &id, "beta")
		case 1:
			p.Ops = append(p.Ops, simkit.Op{Actor: "user", Kind: "sleep", N: []int64{int64(simkit.Pick(r, []int{137, 401, 733, 1259, 2903}))}})
		case 2:
			// Undo what the last transition did.
			p.Ops = append(p.Ops, simkit.Op{Actor: "user", Kind: "reverse"})
		case 3:
			// The controller applies a change that needs no staging.
			kind := simkit.Pick(r, []string{"mkdir", "mkdir", "rm", "link"})
			p.Ops = append(p.Ops, simkit.Op{Actor: "ctl", Kind: "transition", S: []string{kind, simkit.Pick(r, []string{"t1", "t2", "a", "b", "d"})}})
		}
	}
}

func execPoll(t *testing.T, plan *simkit.Plan) *simkit.Result {
	var nontrivial bool
	res := simkit.Run(t, plan, simkit.Options{MaxSteps: 30000, Horizon: 5 * time.Minute, RealTimeout: 120 * time.Second}, func(s *simkit.Sim) {
		c := newComp(s, plan)
		defer c.close()
		c.rebuild(plan)
		// Use the session-style hook (gates) rather than the counting one.
		c.d.gated = map[string]bool{}
		g := plan.C("fs_gates")
		for i, act := range []string{"scan", "transition", "stage", "supply", "receive", "poll"} {
			if g&(1<<i) != 0 {
				c.d.gated[act] = true
			}
		}
		hookOn := true
		setHook(func(op string, dirfd int, path string, dirfd2 int, path2 string) error {
			if !hookOn {
				return nil
			}
			return c.d.hook(op, dirfd, path, dirfd2, path2)
		})
		defer func() { hookOn = false }()
		cfg := &synchronization.Configuration{
			WatchMode:            synchronization.WatchMode_WatchModeForcePoll,
			WatchPollingInterval: 1,
			Ignores:              []string{"*.ign"},
		}
		c.h.mode = core.SynchronizationMode_SynchronizationModeTwoWaySafe
		ep := c.endpoint("beta", false, cfg)
		ctx := context.Background()

		var mu sync.Mutex
		var known *core.Entry // what the controller last learnt from Scan
		var lastTransition []*core.Change
		var lastResults []*core.Entry
		pollReturns := 0
		divergedSince := time.Duration(-1)
		userSeq := int64(0)
		stop := false
		ctlBusy := false
		var pendingTransitions []simkit.Op
		running := 0
		start := func(name string, fn func()) {
			mu.Lock()
			running++
			mu.Unlock()
			s.Go(name, func() {
				defer func() { mu.Lock(); running--; mu.Unlock() }()
				fn()
			})
		}
		doScan := func(label string, full bool) {
			snap, err, _ := ep.Scan(ctx, nil, full)
			if err != nil {
				s.Logf(label, "scan error %v", err)
				return
			}
			mu.Lock()
			seqBefore := userSeq
			mu.Unlock()
			_ = seqBefore
			mu.Lock()
			known = snap.Content
			mu.Unlock()
			s.Logf(label, "scan full=%v -> %s", full, render(snap.Content))
		}
		// The controller: waits for Poll, scans, and applies queued changes.
		pollCtx, pollCancel := context.WithCancel(ctx)
		var cancelCurrentPoll context.CancelFunc
		start("clock", func() {
			for {
				mu.Lock()
				done := stop
				mu.Unlock()
				if done || s.PassThrough() {
					return
				}
				time.Sleep(503 * time.Millisecond)
				s.Wake()
			}
		})
		start("ctl", func() {
			// (The endpoint's own polling goroutine starts with a scan as well:
			// the scheduler, not the runtime, decides which of the two gets the
			// endpoint's scan lock first.)
			s.Gate("ctl", "start")
			doScan("ctl", true)
			for {
				mu.Lock()
				if stop {
					mu.Unlock()
					return
				}
				var next *simkit.Op
				if len(pendingTransitions) > 0 {
					op := pendingTransitions[0]
					pendingTransitions = pendingTransitions[1:]
					next = &op
				}
				mu.Unlock()
				if next != nil {
					s.Gate("ctl", "transition")
					mu.Lock()
					ctlBusy = true
					k := known
					mu.Unlock()
					path := next.Str(1)
					old := syncPart(lookup(k, path))
					var nw *core.Entry
					switch next.Str(0) {
					case "mkdir":
						nw = dirEntry()
					case "link":
						nw = &core.Entry{Kind: core.EntryKind_SymbolicLink, Target: "a"}
					case "rm":
						nw = nil
					}
					if !deepEqual(old, nw) && !hasUnsync(lookup(k, path)) && (old == nil || nw == nil) {
						change := &core.Change{Path: path, Old: old, New: nw}
						results, problems, _, err := ep.Transition(ctx, []*core.Change{change})
						if err == nil {
							mu.Lock()
							lastTransition = []*core.Change{change}
							lastResults = results
							mu.Unlock()
							if len(results) == 1 && !deepEqual(results[0], old) {
								s.Count("probe.transition_changed_disk", 1)
								// C42 rule 1: the next scan must not return the
								// pre-transition snapshot.
								mu.Lock()
								edits := userSeq
								mu.Unlock()
								snap, serr, _ := ep.Scan(ctx, nil, false)
								mu.Lock()
								quietUser := userSeq == edits
								mu.Unlock()
								if serr == nil {
									got := syncPart(lookup(snap.Content, path))
									on := syncPart(lookup(c.d.walkTree("beta"), path))
									if quietUser && !deepEqual(got, on) {
										s.Violate("C42", "stale-snapshot-after-transition", "Scan", "after a transition changed %q from %s to %s, the next scan reports %s there while the disk holds %s", path, render(old), render(results[0]), render(got), render(on))
									}
									mu.Lock()
									known = snap.Content
									mu.Unlock()
									s.Logf("ctl", "transition %s %q (%d problems) then scan -> %s", next.Str(0), path, len(problems), render(snap.Content))
								}
							} else {
								s.Logf("ctl", "transition %s %q made no change (%d problems)", next.Str(0), path, len(problems))
								doScan("ctl", false)
							}
						} else {
							s.Logf("ctl", "transition refused: %v", err)
							doScan("ctl", false)
						}
					} else {
						doScan("ctl", false)
					}
					mu.Lock()
					ctlBusy = false
					mu.Unlock()
					continue
				}
				mu.Lock()
				ctlBusy = false
				mu.Unlock()
				pctx, pcancel := context.WithCancel(pollCtx)
				mu.Lock()
				cancelCurrentPoll = pcancel
				havePending := len(pendingTransitions) > 0
				mu.Unlock()
				if havePending {
					pcancel()
					continue
				}
				err := ep.Poll(pctx)
				interrupted := pctx.Err() != nil
				pcancel()
				if pollCtx.Err() != nil || err != nil {
					return
				}
				if interrupted {
					continue
				}
				mu.Lock()
				pollReturns++
				divergedSince = -1
				ctlBusy = true
				mu.Unlock()
				s.Count("probe.poll_returns", 1)
				s.Gate("ctl", "scan-after-poll")
				doScan("ctl", false)
			}
		})
		start("user", func() {
			for _, op := range plan.Ops {
				if s.PassThrough() {
					return
				}
				switch {
				case op.Actor == "ctl":
					s.Gate("user", "request-transition")
					mu.Lock()
					pendingTransitions = append(pendingTransitions, op)
					cancelPoll := cancelCurrentPoll
					mu.Unlock()
					// Interrupt the controller's Poll so that it picks the
					// change up (a flush in the real controller).
					if cancelPoll != nil {
						cancelPoll()
					}
					continue
				case op.Actor != "user":
					continue
				case op.Kind == "sleep":
					time.Sleep(time.Duration(op.Int(0))*time.Millisecond + 71*time.Microsecond)
					continue
				}
				s.Gate("user", op.Kind)
				if op.Kind == "reverse" {
					mu.Lock()
					lt, lr := lastTransition, lastResults
					mu.Unlock()
					if len(lt) == 1 && len(lr) == 1 {
						abs := filepath.Join(c.d.roots["beta"], lt[0].Path)
						if lt[0].Old == nil && lr[0] != nil {
							rmAll(abs)
							c.d.recordEdit("beta", lt[0].Path)
							s.Logf("user", "reverse: removed %q again", lt[0].Path)
							s.Count("probe.reversals", 1)
						} else if lt[0].Old != nil && lr[0] == nil && lt[0].Old.Kind == core.EntryKind_Directory && len(lt[0].Old.Contents) == 0 {
							os.Mkdir(abs, 0o755)
							c.d.recordEdit("beta", lt[0].Path)
							s.Logf("user", "reverse: recreated %q", lt[0].Path)
							s.Count("probe.reversals", 1)
						}
					}
				} else {
					c.d.userOp(op)
				}
				mu.Lock()
				userSeq++
				mu.Unlock()
			}
		})
		// C42 rule 2 as an invariant: whenever the disk differs from what the
		// controller last learnt, a Poll return follows within the polling
		// interval (plus coalescing windows and one scan).
		const bound = 2*time.Second + 600*time.Millisecond
		s.Invariant = func() {
			mu.Lock()
			k, busy, pending := known, ctlBusy, len(pendingTransitions)
			mu.Unlock()
			if k == nil || busy || pending > 0 {
				mu.Lock()
				divergedSince = -1
				mu.Unlock()
				return
			}
			disk := c.d.walkTree("beta")
			differs := !snapshotMatches(k, disk) || !snapshotMatches(disk, k)
			mu.Lock()
			defer mu.Unlock()
			if !differs {
				divergedSince = -1
				return
			}
			// (Measured on the clock that stands still during stalls: while the
			// simulator holds the poller's own system calls back, nothing can
			// be expected of it.)
			if divergedSince < 0 {
				divergedSince = s.Unstalled()
				return
			}
			if s.Unstalled()-divergedSince > bound {
				s.Violate("C42", "change-not-notified", "Poll", "the root has differed from the controller's last snapshot for %v of simulated time (since %v) and Poll has not returned: controller knows %s, disk holds %s", s.Unstalled()-divergedSince, divergedSince, render(k), render(disk))
				divergedSince = s.Unstalled() + time.Hour
			}
		}
		userDone := func() bool {
			mu.Lock()
			defer mu.Unlock()
			return running <= 2 && len(pendingTransitions) == 0 && !ctlBusy
		}
		s.Loop(userDone)
		// Settle: give the poller three intervals, watching the invariant.
		settleUntil := s.Now() + 4*time.Second + 13*time.Millisecond
		s.Loop(func() bool { return s.Now() >= settleUntil })
		mu.Lock()
		stop = true
		nontrivial = pollReturns >= 1
		mu.Unlock()
		s.Finish()
		pollCancel()
		ep.Shutdown()
		s.WaitActors(time.Minute)
	})
	res.NonTrivial = nontrivial
	res.Fingerprint = res.JournalHash
	return res
}

var _ = fmt.Sprint
var _ = sort.Strings
