package simkit

import (
	"errors"
	"io"
	"net"
	"os"
	"sync"
	"time"
)

// LinkOpts configure one simulated full-duplex byte link.
type LinkOpts struct {
	FragMax  int           // maximum bytes per delivery step (0 = everything queued)
	ShortMax int           // maximum bytes per Read (0 = as much as available)
	Delay    time.Duration // simulated latency per delivery step
	Capacity int           // bytes in flight before Write blocks (0 = unlimited)
	// Per direction faults ("ab" = first end to second end, "ba" the reverse);
	// offsets count bytes delivered in that direction. -1 = none.
	CutAt      map[string]int // reader gets an error, writer gets an error
	TruncAt    map[string]int // stream ends (EOF) after that many bytes; rest is discarded
	CorruptAt  map[string]int // byte at that offset is XORed with CorruptXor
	CorruptXor byte
}

// ErrLinkCut is returned by a link whose carrier failed.
var ErrLinkCut = errors.New("simulated link failure")

type pipe struct {
	s    *Sim
	name string

	mu          sync.Mutex
	inflight    []byte
	arrived     []byte
	delivered   int
	writeClosed bool
	readClosed  bool
	cut         bool
	truncated   bool
	opts        *LinkOpts
	dir         string
	readable    chan struct{}
	pumpWake    chan struct{}
	writable    chan struct{}
	rdl         time.Time
	rdlTimer    *time.Timer
}

func sig(c chan struct{}) {
	select {
	case c <- struct{}{}:
	default:
	}
}

func faultAt(m map[string]int, dir string) int {
	if m == nil {
		return -1
	}
	if v, ok := m[dir]; ok {
		return v
	}
	return -1
}

func (p *pipe) idle() bool {
	p.mu.Lock()
	defer p.mu.Unlock()
	return len(p.inflight) == 0 && len(p.arrived) == 0
}

func (p *pipe) write(b []byte) (int, error) {
	written := 0
	for len(b) > 0 {
		p.mu.Lock()
		if p.writeClosed || p.readClosed || p.cut {
			p.mu.Unlock()
			return written, io.ErrClosedPipe
		}
		if p.truncated {
			// Bytes after the truncation point vanish.
			p.mu.Unlock()
			return written + len(b), nil
		}
		room := len(b)
		if p.opts.Capacity > 0 {
			room = min(room, p.opts.Capacity-len(p.inflight))
		}
		if room <= 0 {
			p.mu.Unlock()
			p.s.Count("probe.link_backpressure", 1)
			<-p.writable
			continue
		}
		p.inflight = append(p.inflight, b[:room]...)
		p.mu.Unlock()
		sig(p.pumpWake)
		written += room
		b = b[room:]
	}
	return written, nil
}

func (p *pipe) pump() {
	for {
		p.mu.Lock()
		n := len(p.inflight)
		done := p.readClosed || p.cut || p.truncated || (p.writeClosed && n == 0)
		p.mu.Unlock()
		if done {
			sig(p.readable)
			return
		}
		if n == 0 {
			<-p.pumpWake
			continue
		}
		if p.opts.Delay > 0 {
			time.Sleep(p.opts.Delay)
		}
		p.s.Gate("", "deliver")
		p.mu.Lock()
		n = len(p.inflight)
		if n > 0 && !p.readClosed && !p.cut {
			k := n
			if p.opts.FragMax > 0 {
				k = min(n, 1+p.s.Choose(p.opts.FragMax))
			}
			if at := faultAt(p.opts.CutAt, p.dir); at >= 0 && p.delivered+k >= at {
				k = max(0, at-p.delivered)
				p.cut = true
				p.s.Count("fault.link_cut", 1)
				p.s.Logf(p.name, "link cut after %d bytes", at)
			}
			if at := faultAt(p.opts.TruncAt, p.dir); at >= 0 && p.delivered+k >= at {
				k = max(0, at-p.delivered)
				p.truncated = true
				p.s.Count("fault.link_truncate", 1)
				p.s.Logf(p.name, "link truncated after %d bytes", at)
			}
			chunk := append([]byte(nil), p.inflight[:k]...)
			if at := faultAt(p.opts.CorruptAt, p.dir); at >= p.delivered && at < p.delivered+k {
				chunk[at-p.delivered] ^= p.opts.CorruptXor
				p.s.Count("fault.link_corrupt", 1)
				p.s.Logf(p.name, "byte %d corrupted (xor %#02x)", at, p.opts.CorruptXor)
			}
			p.arrived = append(p.arrived, chunk...)
			p.inflight = p.inflight[k:]
			p.delivered += k
			p.s.Count("probe.link_fragments", 1)
		}
		p.mu.Unlock()
		sig(p.readable)
		sig(p.writable)
	}
}

func (p *pipe) read(b []byte) (int, error) {
	for {
		p.mu.Lock()
		if p.readClosed {
			p.mu.Unlock()
			return 0, io.ErrClosedPipe
		}
		if len(p.arrived) > 0 && len(b) > 0 {
			n := min(len(b), len(p.arrived))
			if p.opts.ShortMax > 0 && n > 1 {
				n = min(n, 1+p.s.ChooseKeyed("short-read:"+p.name, p.opts.ShortMax))
			}
			copy(b, p.arrived[:n])
			p.arrived = p.arrived[n:]
			p.mu.Unlock()
			return n, nil
		}
		if len(b) == 0 {
			p.mu.Unlock()
			return 0, nil
		}
		if p.cut {
			p.mu.Unlock()
			return 0, ErrLinkCut
		}
		if p.truncated || (p.writeClosed && len(p.inflight) == 0) {
			p.mu.Unlock()
			return 0, io.EOF
		}
		dl := p.rdl
		p.mu.Unlock()
		if !dl.IsZero() {
			d := time.Until(dl)
			if d <= 0 {
				return 0, os.ErrDeadlineExceeded
			}
			t := time.NewTimer(d)
			select {
			case <-p.readable:
				t.Stop()
			case <-t.C:
			}
			continue
		}
		<-p.readable
	}
}

func (p *pipe) closeWrite() {
	p.mu.Lock()
	p.writeClosed = true
	p.mu.Unlock()
	sig(p.pumpWake)
	sig(p.readable)
	sig(p.writable)
}

func (p *pipe) closeRead() {
	p.mu.Lock()
	p.readClosed = true
	p.mu.Unlock()
	sig(p.pumpWake)
	sig(p.readable)
	sig(p.writable)
}

// LinkEnd is one end of a simulated link: an io.ReadWriteCloser that also
// satisfies net.Conn (with CloseWrite) on the fake clock.
type LinkEnd struct {
	in, out *pipe
	name    string
	once    sync.Once
	closed  bool
	cw      bool
	// OnWrite, if set, observes every accepted Write (for monitors).
	OnWrite func(b []byte)
}

func (e *LinkEnd) Read(b []byte) (int, error) { return e.in.read(b) }

func (e *LinkEnd) Write(b []byte) (int, error) {
	n, err := e.out.write(b)
	if e.OnWrite != nil && n > 0 {
		e.OnWrite(b[:n])
	}
	return n, err
}

// Close closes both directions as seen from this end.
func (e *LinkEnd) Close() error {
	e.once.Do(func() {
		e.in.mu.Lock()
		e.closed = true
		e.in.mu.Unlock()
		e.out.closeWrite()
		e.in.closeRead()
	})
	return nil
}

// Closed reports whether Close was called on this end.
func (e *LinkEnd) Closed() bool {
	e.in.mu.Lock()
	defer e.in.mu.Unlock()
	return e.closed
}

// WriteClosed reports whether CloseWrite (or Close) was called on this end.
func (e *LinkEnd) WriteClosed() bool {
	e.in.mu.Lock()
	defer e.in.mu.Unlock()
	return e.cw || e.closed
}

// CloseWrite half-closes: the peer reads EOF after the data in flight.
func (e *LinkEnd) CloseWrite() error {
	e.in.mu.Lock()
	e.cw = true
	e.in.mu.Unlock()
	e.out.closeWrite()
	return nil
}

type linkAddr string

func (a linkAddr) Network() string { return "simlink" }
func (a linkAddr) String() string  { return string(a) }

func (e *LinkEnd) LocalAddr() net.Addr  { return linkAddr(e.name) }
func (e *LinkEnd) RemoteAddr() net.Addr { return linkAddr(e.name + ".peer") }

func (e *LinkEnd) SetDeadline(t time.Time) error { return e.SetReadDeadline(t) }
func (e *LinkEnd) SetReadDeadline(t time.Time) error {
	e.in.mu.Lock()
	e.in.rdl = t
	e.in.mu.Unlock()
	sig(e.in.readable)
	return nil
}
func (e *LinkEnd) SetWriteDeadline(t time.Time) error { return nil }

// Link is a full-duplex simulated link with two pump actors.
type Link struct {
	A, B   *LinkEnd
	ab, ba *pipe
}

// Idle reports whether no byte is in flight or unread in either direction.
func (l *Link) Idle() bool { return l.ab.idle() && l.ba.idle() }

// Delivered returns the bytes delivered so far in each direction.
func (l *Link) Delivered() (ab, ba int) {
	l.ab.mu.Lock()
	ab = l.ab.delivered
	l.ab.mu.Unlock()
	l.ba.mu.Lock()
	ba = l.ba.delivered
	l.ba.mu.Unlock()
	return
}

// NewLink creates a link inside the bubble and starts its pump actors, which
// are labelled "link.<name>.ab" and "link.<name>.ba".
func (s *Sim) NewLink(name string, opts LinkOpts) *Link {
	o := opts
	mk := func(dir string) *pipe {
		return &pipe{s: s, name: "link." + name + "." + dir, opts: &o, dir: dir,
			readable: make(chan struct{}, 1), pumpWake: make(chan struct{}, 1), writable: make(chan struct{}, 1)}
	}
	l := &Link{ab: mk("ab"), ba: mk("ba")}
	l.A = &LinkEnd{in: l.ba, out: l.ab, name: name + ".a"}
	l.B = &LinkEnd{in: l.ab, out: l.ba, name: name + ".b"}
	s.Go(l.ab.name, l.ab.pump)
	s.Go(l.ba.name, l.ba.pump)
	return l
}
