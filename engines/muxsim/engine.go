// Package muxsim runs two real multiplexers over a simulated carrier inside a
// synctest bubble. A seeded scheduler decides every client operation, carrier
// delivery fragment and yield; oracles decide C23 (reliable ordered delivery),
// C24 (no protocol violation between conforming peers), C25 (no hangs, no
// head-of-line blocking) and C26 (ring buffer, scenario "ring").
package muxsim

import (
	"context"
	"errors"
	"fmt"
	"io"
	"net"
	"os"
	"runtime"
	"sort"
	"strings"
	"sync"
	"testing"
	"time"

	"github.com/mutagen-io/mutagen/pkg/multiplexing"
	"github.com/mutagen-io/mutagen/pkg/verif"

	"verif/simkit"
)

// Engine implements simkit.Engine.
type Engine struct{}

func (Engine) Name() string { return "muxsim" }

func (Engine) Scenarios(property string) []string {
	switch property {
	case "C23":
		return []string{"streams"}
	case "C24":
		return []string{"conform"}
	case "C25":
		return []string{"stall"}
	case "C26":
		return []string{"ring"}
	}
	return nil
}

func (Engine) Generate(property, scenario string, seed uint64, tier string) *simkit.Plan {
	p := &simkit.Plan{Engine: "muxsim", Scenario: scenario, Property: property, Seed: seed, Cfg: map[string]int64{}}
	r := simkit.NewRand(seed, 1)
	if scenario == "ring" {
		genRing(p, r, tier)
	} else {
		genMux(p, r, tier)
	}
	return p
}

func (Engine) Execute(t *testing.T, plan *simkit.Plan) *simkit.Result {
	if plan.Scenario == "ring" {
		return execRing(plan)
	}
	return execMux(t, plan)
}

var yieldSites = []string{"multiplexing.open.sent", "multiplexing.accept.established", "multiplexing.read.increment", "multiplexing.write.block"}

func genMux(p *simkit.Plan, r *simkit.Rand, tier string) {
	c := p.Cfg
	prof := p.Scenario
	c["window"] = int64(simkit.Pick(r, []int{1, 2, 7, 16, 64, 256, 256, 1000, 65535, 262144}))
	if prof == "stall" && r.Chance(1, 10) {
		c["window"] = 0
	}
	c["window_b"] = c["window"]
	if r.Chance(1, 3) {
		c["window_b"] = int64(simkit.Pick(r, []int{1, 3, 32, 300, 65535}))
	}
	c["wbuf"] = int64(r.Range(1, 5))
	c["backlog"] = int64(r.Range(1, 3))
	c["frag"] = int64(simkit.Pick(r, []int{1, 2, 5, 16, 64, 1000, 0}))
	c["short"] = int64(simkit.Pick(r, []int{0, 1, 3, 16}))
	c["delay_us"] = int64(simkit.Pick(r, []int{0, 0, 100, 5000}))
	c["linkcap"] = int64(simkit.Pick(r, []int{0, 0, 0, 8, 64, 4096}))
	c["heartbeat_ms"] = int64(simkit.Pick(r, []int{0, 0, 500, 5000}))
	c["hbrecv_ms"] = 0
	// A receive timeout only with an undelayed carrier: a carrier too slow to
	// deliver heartbeats in time legitimately ends the connection.
	if c["heartbeat_ms"] > 0 && c["delay_us"] == 0 && r.Chance(1, 2) {
		c["hbrecv_ms"] = c["heartbeat_ms"] * 3
	}
	c["yields"] = int64(r.Intn(1 << len(yieldSites)))
	c["sched_sticky"] = int64(simkit.Pick(r, []int{0, 30, 60, 90}))
	// Stalls: everything parked (carrier deliveries, clients, yields) stays
	// parked while simulated time passes - deadlines expire, heartbeats are due.
	c["sched_stall"] = int64(simkit.Pick(r, []int{0, 0, 0, 10, 40}))
	if c["sched_stall"] > 0 {
		c["hbrecv_ms"] = 0 // (a stalled carrier may legitimately miss a receive timeout)
	}
	nclients := r.Range(1, 3)
	c["clients"] = int64(nclients)
	nstreams := r.Range(1, 6)
	total := r.Range(10, 70)
	if tier == "thorough" {
		total = r.Range(10, 200)
		nstreams = r.Range(1, 8)
	}
	maxWrite := int(c["window"]) * 3
	if maxWrite < 8 {
		maxWrite = 8
	}
	if maxWrite > 5000 {
		maxWrite = 5000
	}
	if r.Chance(1, 12) || (c["window"] > 65535 && r.Chance(2, 3)) {
		maxWrite = 150000 // crosses the 65535-byte data frame limit
		if c["window"] > 65535 {
			// (a receive window larger than one data frame: a single Write
			// must be cut into frames, not into window-sized blocks)
			c["frag"] = int64(simkit.Pick(r, []int{1000, 0}))
		}
	}
	if f := int(c["frag"]); f > 0 && maxWrite > f*400 {
		maxWrite = f * 400 // keep the number of delivery steps bounded
	}
	actor := func(side string, k int) string { return fmt.Sprintf("%s%d", side, k) }
	readActor := func(side string, slot int) string { return actor(side, slot%nclients) }
	writeActor := func(side string, slot int) string { return actor(side, (slot+1)%nclients) }
	add := func(a, kind string, n ...int64) { p.Ops = append(p.Ops, simkit.Op{Actor: a, Kind: kind, N: n}) }
	opened := map[int]bool{}
	sides := []string{"A", "B"}
	other := map[string]string{"A": "B", "B": "A"}
	ensureOpen := func(slot int) {
		if opened[slot] {
			return
		}
		opened[slot] = true
		o := simkit.Pick(r, sides)
		add(readActor(o, slot), "open", int64(slot), int64(simkit.Pick(r, []int{1000, 3000})))
		add(readActor(other[o], slot), "accept", int64(slot), int64(simkit.Pick(r, []int{1000, 3000})))
	}
	weights := map[string][]int{
		// write read zero-read zero-write closewrite close rdeadline wdeadline sleep extra-open extra-accept muxclose
		"streams": {30, 30, 3, 2, 4, 3, 2, 2, 3, 0, 0, 0},
		"conform": {22, 22, 8, 5, 5, 5, 6, 6, 4, 4, 2, 0},
		"stall":   {30, 10, 2, 2, 4, 5, 8, 8, 5, 8, 3, 1},
	}[prof]
	for i := 0; i < total; i++ {
		slot := r.Intn(nstreams)
		side := simkit.Pick(r, sides)
		ensureOpen(slot)
		switch r.Weighted(weights) {
		case 0:
			add(writeActor(side, slot), "write", int64(slot), int64(r.SmallBiased(maxWrite)+1))
		case 1:
			add(readActor(side, slot), "read", int64(slot), int64(r.SmallBiased(maxWrite)+1))
		case 2:
			add(readActor(side, slot), "read", int64(slot), 0)
		case 3:
			add(writeActor(side, slot), "write", int64(slot), 0)
		case 4:
			add(actor(side, r.Intn(nclients)), "closewrite", int64(slot))
		case 5:
			add(actor(side, r.Intn(nclients)), "close", int64(slot))
		case 6:
			add(actor(side, r.Intn(nclients)), "rdeadline", int64(slot), int64(simkit.Pick(r, []int{-5, 0, 1, 50, 800})))
		case 7:
			add(actor(side, r.Intn(nclients)), "wdeadline", int64(slot), int64(simkit.Pick(r, []int{-5, 0, 1, 50, 800})))
		case 8:
			add(actor(side, r.Intn(nclients)), "sleep", int64(simkit.Pick(r, []int{1, 20, 400, 2500})))
		case 9:
			// An open nobody accepts (backlog overflow when repeated).
			extra := 100 + r.Intn(8)
			add(actor(side, r.Intn(nclients)), "open", int64(extra), int64(simkit.Pick(r, []int{200, 1500})))
		case 10:
			extra := 200 + r.Intn(8)
			add(actor(side, r.Intn(nclients)), "accept", int64(extra), int64(simkit.Pick(r, []int{200, 1500})))
		case 11:
			add(actor(side, r.Intn(nclients)), "muxclose")
		}
	}
	if nclients >= 2 && r.Chance(1, 3) {
		// (Half of the time right at the start of the plan: the multiplexers
		// are certainly still up then.)
		atStart := r.Chance(1, 2)
		before := len(p.Ops)
		defer func() {
			if atStart && len(p.Ops) > before {
				pattern := append([]simkit.Op(nil), p.Ops[before:]...)
				p.Ops = append(pattern, p.Ops[:before]...)
			}
		}()
		// A half-close racing with a large write on the same stream end, issued
		// by two different clients, over a carrier that holds write buffers back.
		// (On a stream of its own: the others may be closed by now.)
		slot := 50
		side := simkit.Pick(r, sides)
		ensureOpen(slot)
		c["wbuf"] = int64(simkit.Pick(r, []int{1, 1, 2}))
		c["linkcap"] = int64(simkit.Pick(r, []int{8, 64, 0}))
		c["yields"] = c["yields"] | 8 // the writer can be parked between two blocks
		if r.Chance(1, 2) {
			// ... exactly between two data blocks of that write.
			add(readActor(other[side], slot), "read", int64(slot), int64(maxWrite))
			add(writeActor(side, slot), "write", int64(slot), int64(r.Range(maxWrite/2+1, maxWrite+1)), int64(r.Range(1, 2)))
		} else {
			add(writeActor(side, slot), "write", int64(slot), int64(r.Range(maxWrite/2+1, maxWrite+1)))
			add(readActor(side, slot), "closewrite", int64(slot))
		}
		add(readActor(other[side], slot), "read", int64(slot), int64(maxWrite))
	}
	if (prof == "stall" || prof == "conform") && r.Chance(1, 6) {
		// Mutual backlog overflow: both sides open more streams than the peer
		// will queue, at about the same time, with few write buffers and a
		// carrier that pushes back.
		c["wbuf"] = int64(simkit.Pick(r, []int{1, 1, 2}))
		c["linkcap"] = int64(simkit.Pick(r, []int{8, 8, 16}))
		c["backlog"] = int64(simkit.Pick(r, []int{1, 1, 2}))
		c["delay_us"] = int64(simkit.Pick(r, []int{5000, 5000, 100, 0}))
		c["hbrecv_ms"] = 0 // (a delayed carrier may legitimately miss a receive timeout)
		extra := 120
		// One dedicated client per open, so that they are all in flight at once
		// (an open blocks its caller until it is answered or times out).
		for k := int(c["backlog"]) + r.Range(3, 7); k > 0; k-- {
			for _, sd := range sides {
				extra++
				add(fmt.Sprintf("%s%d", sd, 3+k), "open", int64(extra), int64(simkit.Pick(r, []int{400, 1500})))
			}
		}
	}
	if prof == "conform" && r.Chance(1, 12) {
		// A sustained bulk transfer with heartbeats required: the carrier is
		// saturated for several receive-timeout intervals on end (each data
		// frame takes a small fraction of one), and heartbeats have to keep
		// flowing between the frames in both directions.
		slot := 60
		side := simkit.Pick(r, sides)
		ensureOpen(slot)
		c["heartbeat_ms"], c["hbrecv_ms"] = 50, 300
		c["delay_us"], c["frag"], c["linkcap"], c["short"] = 1000, 1000, 4096, 0
		c["wbuf"] = int64(simkit.Pick(r, []int{2, 3}))
		c["window"], c["window_b"] = 16384, 16384
		c["sched_stall"] = 0
		add(writeActor(side, slot), "write", int64(slot), int64(r.Range(450000, 650000)))
		for k := 0; k < 60; k++ {
			add(readActor(other[side], slot), "read", int64(slot), 16384)
		}
	}
	if prof == "stall" && r.Chance(1, 5) {
		// A reader consumes data and half-closes its own direction right away,
		// over a congested carrier (its window increments are still waiting for
		// a write buffer); the peer then needs that credit to go on writing.
		slot := 80
		side := simkit.Pick(r, sides)
		ensureOpen(slot)
		c["wbuf"], c["linkcap"], c["sched_stall"] = 1, int64(simkit.Pick(r, []int{8, 16})), 0
		w := int(c["window"])
		if side == "B" {
			w = int(c["window_b"])
		}
		if w >= 2 && w <= 1000 {
			rd, wr := readActor(side, slot), writeActor(other[side], slot)
			add(wr, "write", int64(slot), int64(w))
			add(rd, "read", int64(slot), int64(w))
			add(rd, "closewrite", int64(slot))
			add(wr, "write", int64(slot), int64(w))
			add(rd, "read", int64(slot), int64(w))
			add(rd, "read", int64(slot), int64(w))
		}
	}
	if prof == "stall" && r.Chance(1, 5) {
		// Data that arrives at the very instant a blocked reader's deadline
		// expires, and a second read afterwards (the deadline is still the
		// same and long past: it must not block).
		slot := 70
		side := simkit.Pick(r, sides)
		ensureOpen(slot)
		c["sched_stall"], c["delay_us"] = 0, 0
		rd, wr := readActor(side, slot), writeActor(other[side], slot)
		add(rd, "rdeadline", int64(slot), int64(simkit.Pick(r, []int{20, 40})))
		add(wr, "tie", int64(slot))
		add(wr, "write", int64(slot), int64(r.Range(1, 3)))
		add(rd, "read", int64(slot), 16)
		add(rd, "read", int64(slot), 16)
	}
	if prof == "stall" && r.Chance(1, 4) {
		p.Faults = append(p.Faults, simkit.Fault{Kind: "link_cut", Key: simkit.Pick(r, []string{"A>B", "B>A"}), Nth: 1, Arg: int64(r.Range(0, 400))})
	}
}

// secondCloserBehindParkedOp keeps the simulator from wedging itself: while a
// read or write on a stream is parked at a yield site it holds that stream's
// deadline token; a first Close/CloseWrite then waits for the token inside a
// sync.Once (durably), but a second one would wait for the Once's mutex, which
// synctest cannot see as blocked. The second closer is skipped in that situation
// (it is the simulator, not the system, that keeps the token holder from running).
func (h *harness) secondCloserBehindParkedOp(sl *slot) bool {
	h.mu.Lock()
	defer h.mu.Unlock()
	parked, closing := false, false
	for _, op := range h.inflight {
		if op.sl != sl {
			continue
		}
		if op.atYield {
			parked = true
		}
		if op.kind == "close" || op.kind == "closewrite" {
			closing = true
		}
	}
	if parked && closing {
		h.s.Count("probe.second_closer_skipped", 1)
		return true
	}
	return false
}

// pat is the byte at position i of the stream sid written by side from.
func pat(sid uint64, from string, i int) byte {
	d := uint64(0)
	if from == "B" {
		d = 1
	}
	x := uint64(i)*0x9e3779b1 + sid*0x85ebca6b + d*0xc2b2ae35
	x ^= x >> 15
	return byte(x ^ x>>7)
}

type slot struct {
	st   *multiplexing.Stream
	sid  uint64
	side *side
	// written: bytes acknowledged by Write; readPos: bytes returned by Read.
	written, readPos                                   int
	offered                                            int // written + size of the Write in progress
	cwInvoked, cwReturned, closeInvoked, closeReturned bool
	rdl, wdl                                           time.Time
	sawEOF                                             bool
	drained                                            bool
	// halfCloseAtBlock > 0: another goroutine half-closes this stream end while
	// the Write in progress is between its k-th and (k+1)-th data block.
	halfCloseAtBlock int
}

type side struct {
	name          string
	mux           *multiplexing.Multiplexer
	slots         map[int]*slot
	peer          *side
	closeInvoked  bool
	closeReturned bool
	backlog       int
	window        int
}

type opState struct {
	actor, kind string
	sd          *side
	sl          *slot
	deadline    time.Time // context deadline for open/accept
	size        int
	atYield     bool // parked by the simulator inside the operation
}

type harness struct {
	s        *simkit.Sim
	mu       sync.Mutex
	A, B     *side
	ab, ba   *link
	bySid    map[uint64]map[string]*slot
	inflight map[string]*opState
	stop     bool
	clients  int
	mon      *monitor
	cutFired func() bool
	prop     string
}

func (h *harness) peerSlot(sl *slot) *slot {
	if m := h.bySid[sl.sid]; m != nil {
		return m[sl.side.peer.name]
	}
	return nil
}

func (h *harness) begin(actor, kind string, sd *side, sl *slot, dl time.Time, size int) {
	h.mu.Lock()
	h.inflight[actor] = &opState{actor: actor, kind: kind, sd: sd, sl: sl, deadline: dl, size: size}
	h.mu.Unlock()
}

func (h *harness) end(actor string) {
	h.mu.Lock()
	delete(h.inflight, actor)
	h.mu.Unlock()
}

func sid(st *multiplexing.Stream) uint64 {
	var id uint64
	fmt.Sscanf(st.LocalAddr().String(), "local:%d", &id)
	return id
}

func errClass(err error) string {
	switch {
	case err == nil:
		return "ok"
	case err == io.EOF:
		return "EOF"
	case errors.Is(err, os.ErrDeadlineExceeded):
		return "deadline"
	case errors.Is(err, multiplexing.ErrMultiplexerClosed):
		return "muxclosed"
	case errors.Is(err, multiplexing.ErrStreamRejected):
		return "rejected"
	case errors.Is(err, multiplexing.ErrWriteClosed):
		return "writeclosed"
	case errors.Is(err, context.Canceled):
		return "canceled"
	case err.Error() == "remote: "+net.ErrClosed.Error():
		return "remoteclosed"
	case errors.Is(err, net.ErrClosed):
		return "closed"
	}
	return "other:" + err.Error()
}

// exec performs one client operation on behalf of an actor.
func (h *harness) exec(sd *side, actor string, op simkit.Op) {
	s := h.s
	getSlot := func() *slot {
		// The stream may still be being established by another client of this
		// side (opens and accepts take carrier round trips): wait for it a
		// little in simulated time instead of dropping the operation.
		for i := 0; ; i++ {
			h.mu.Lock()
			sl := sd.slots[int(op.Int(0))]
			stop := h.stop
			h.mu.Unlock()
			if sl != nil || i >= 200 || stop || s.PassThrough() {
				return sl
			}
			time.Sleep(time.Millisecond + 11*time.Microsecond)
		}
	}
	switch op.Kind {
	case "open", "accept":
		idx := int(op.Int(0))
		h.mu.Lock()
		_, exists := sd.slots[idx]
		h.mu.Unlock()
		if exists {
			return
		}
		timeout := time.Duration(op.Int(1))*time.Millisecond + 311*time.Microsecond
		if op.Int(1) <= 0 {
			timeout = time.Second + 311*time.Microsecond
		}
		ctx, cancel := context.WithTimeout(context.Background(), timeout)
		h.begin(actor, op.Kind, sd, nil, time.Now().Add(timeout), 0)
		var st *multiplexing.Stream
		var err error
		if op.Kind == "open" {
			st, err = sd.mux.OpenStream(ctx)
		} else {
			st, err = sd.mux.AcceptStream(ctx)
		}
		cancel()
		h.end(actor)
		s.Logf(actor, "%s slot=%d -> %s", op.Kind, idx, errClass(err))
		if err == nil {
			sl := &slot{st: st, sid: sid(st), side: sd}
			h.mu.Lock()
			sd.slots[idx] = sl
			if h.bySid[sl.sid] == nil {
				h.bySid[sl.sid] = map[string]*slot{}
			}
			h.bySid[sl.sid][sd.name] = sl
			h.mu.Unlock()
			s.Count("probe.stream_established", 1)
		} else if errors.Is(err, multiplexing.ErrStreamRejected) {
			s.Count("probe.open_rejected", 1)
		}
	case "write":
		sl := getSlot()
		if sl == nil {
			return
		}
		n := int(op.Int(1))
		data := make([]byte, n)
		h.mu.Lock()
		base := sl.written
		sl.offered = base + n
		h.mu.Unlock()
		for i := range data {
			data[i] = pat(sl.sid, sd.name, base+i)
		}
		if k := int(op.Int(2)); k > 0 {
			h.mu.Lock()
			sl.halfCloseAtBlock = k
			h.mu.Unlock()
		}
		h.begin(actor, "write", sd, sl, time.Time{}, n)
		w, err := sl.st.Write(data)
		h.mu.Lock()
		sl.written += max(w, 0)
		sl.offered = sl.written
		h.mu.Unlock()
		h.end(actor)
		s.Logf(actor, "write sid=%d len=%d -> %d %s", sl.sid, n, w, errClass(err))
		if w < 0 || w > n {
			s.Violate("C23", "write-count", "Stream.Write", "Write of %d bytes returned n=%d", n, w)
		} else if w < n && err == nil {
			s.Violate("C23", "write-contract", "Stream.Write", "Write of %d bytes returned n=%d with nil error", n, w)
		}
		if n == 0 {
			s.Count("probe.zero_write", 1)
		}
	case "read":
		sl := getSlot()
		if sl == nil {
			return
		}
		h.read(sd, actor, sl, int(op.Int(1)))
	case "closewrite":
		sl := getSlot()
		if sl == nil || h.secondCloserBehindParkedOp(sl) {
			return
		}
		h.mu.Lock()
		sl.cwInvoked = true
		h.mu.Unlock()
		h.begin(actor, "closewrite", sd, sl, time.Time{}, 0)
		err := sl.st.CloseWrite()
		h.mu.Lock()
		sl.cwReturned = true
		h.mu.Unlock()
		h.end(actor)
		s.Logf(actor, "closewrite sid=%d -> %s", sl.sid, errClass(err))
	case "close":
		sl := getSlot()
		if sl == nil || h.secondCloserBehindParkedOp(sl) {
			return
		}
		h.mu.Lock()
		sl.closeInvoked = true
		h.mu.Unlock()
		h.begin(actor, "close", sd, sl, time.Time{}, 0)
		err := sl.st.Close()
		h.mu.Lock()
		sl.closeReturned = true
		h.mu.Unlock()
		h.end(actor)
		s.Logf(actor, "close sid=%d -> %s", sl.sid, errClass(err))
	case "tie":
		// What this side sends next on the carrier arrives at the instant the
		// peer's read deadline on that stream expires.
		sl := getSlot()
		if sl == nil {
			return
		}
		peer := h.peerSlot(sl)
		if peer == nil {
			return
		}
		h.mu.Lock()
		at := peer.rdl
		h.mu.Unlock()
		if at.IsZero() || time.Until(at) <= 0 {
			return
		}
		l := h.ab
		if sd.name == "B" {
			l = h.ba
		}
		l.mu.Lock()
		l.tieAt = at
		l.mu.Unlock()
		s.Logf(actor, "tie sid=%d: the next bytes arrive at the peer's read deadline", sl.sid)
	case "rdeadline", "wdeadline":
		sl := getSlot()
		if sl == nil {
			return
		}
		var t time.Time
		if ms := op.Int(1); ms != 0 {
			t = time.Now().Add(time.Duration(ms)*time.Millisecond + 173*time.Microsecond)
		}
		h.begin(actor, op.Kind, sd, sl, time.Time{}, 0)
		var err error
		if op.Kind == "rdeadline" {
			err = sl.st.SetReadDeadline(t)
		} else {
			err = sl.st.SetWriteDeadline(t)
		}
		h.mu.Lock()
		if err == nil {
			if op.Kind == "rdeadline" {
				sl.rdl = t
			} else {
				sl.wdl = t
			}
		}
		h.mu.Unlock()
		h.end(actor)
		s.Logf(actor, "%s sid=%d %dms -> %s", op.Kind, sl.sid, op.Int(1), errClass(err))
		s.Count("probe.deadline_set", 1)
	case "sleep":
		time.Sleep(time.Duration(op.Int(0))*time.Millisecond + 97*time.Microsecond)
	case "muxclose":
		h.mu.Lock()
		sd.closeInvoked = true
		h.mu.Unlock()
		h.begin(actor, "muxclose", sd, nil, time.Time{}, 0)
		sd.mux.Close()
		h.mu.Lock()
		sd.closeReturned = true
		h.mu.Unlock()
		h.end(actor)
		s.Logf(actor, "muxclose")
		s.Count("probe.mux_closed_by_plan", 1)
	}
}

// read performs one Read and verifies the returned bytes against the pattern.
func (h *harness) read(sd *side, actor string, sl *slot, size int) error {
	s := h.s
	buf := make([]byte, size)
	h.begin(actor, "read", sd, sl, time.Time{}, size)
	n, err := sl.st.Read(buf)
	h.mu.Lock()
	pos := sl.readPos
	sl.readPos += max(n, 0)
	peer := h.peerSlot(sl)
	peerWritten, peerOffered, peerClosing := -1, -1, false
	if peer != nil {
		peerWritten = peer.written
		peerOffered = max(peer.offered, peer.written)
		peerClosing = peer.cwInvoked || peer.closeInvoked
	}
	if err == io.EOF {
		sl.sawEOF = true
	}
	h.mu.Unlock()
	h.end(actor)
	s.Logf(actor, "read sid=%d buf=%d -> %d %s", sl.sid, size, n, errClass(err))
	if size == 0 {
		s.Count("probe.zero_read", 1)
	}
	if n < 0 || n > size {
		s.Violate("C23", "read-count", "Stream.Read", "Read into %d bytes returned n=%d", size, n)
		return err
	}
	from := sd.peer.name
	for i := 0; i < n; i++ {
		if buf[i] != pat(sl.sid, from, pos+i) {
			s.Violate("C23", "data-integrity", "Stream.Read", "stream %d on side %s: byte at offset %d is %#02x, expected %#02x (bytes lost, duplicated, reordered or from another stream)", sl.sid, sd.name, pos+i, buf[i], pat(sl.sid, from, pos+i))
			break
		}
	}
	if peerOffered >= 0 && pos+n > peerOffered {
		s.Violate("C23", "read-beyond-written", "Stream.Read", "stream %d on side %s: %d bytes read but the peer has only offered %d to Write", sl.sid, sd.name, pos+n, peerOffered)
	}
	if err == io.EOF {
		s.Count("probe.eof", 1)
		if peer == nil {
			// The peer's slot is registered when its open/accept returns; an
			// EOF before that is only possible if the peer closed at once.
		} else if !peerClosing {
			s.Violate("C23", "eof-unjustified", "Stream.Read", "stream %d on side %s: EOF although the peer neither half-closed nor closed", sl.sid, sd.name)
		} else if pos+n != peerWritten {
			s.Violate("C23", "eof-before-data", "Stream.Read", "stream %d on side %s: EOF after %d bytes but the peer wrote %d before closing", sl.sid, sd.name, pos+n, peerWritten)
		}
	}
	return err
}

// drain reads a stream until EOF, an error, or a read deadline that expires
// while the carrier is idle (used in the settling phase).
func (h *harness) drain(sd *side, actor string, sl *slot) {
	arm := func() bool {
		// A zero deadline first: an expired deadline is only cleared by a
		// zero deadline in this implementation (observed; outside the listed
		// properties).
		sl.st.SetReadDeadline(time.Time{})
		// An odd duration: never ties with heartbeat tickers or actor sleeps
		// (the runtime, not the seed, orders timers that expire together).
		t := time.Now().Add(2*time.Second + 1371*time.Microsecond)
		if err := sl.st.SetReadDeadline(t); err != nil {
			return false
		}
		h.mu.Lock()
		sl.rdl = t
		h.mu.Unlock()
		return true
	}
	// Kick out a client Read still blocked on this stream (clients stop after
	// their current operation), so that there is never more than one reader.
	busy := func() bool {
		h.mu.Lock()
		defer h.mu.Unlock()
		for _, op := range h.inflight {
			if op.kind == "read" && op.sl == sl && op.actor != actor {
				return true
			}
		}
		return false
	}
	if busy() {
		sl.st.SetReadDeadline(time.Now().Add(-time.Second))
		for i := 0; busy() && i < 1000; i++ {
			time.Sleep(733 * time.Microsecond)
		}
		if busy() {
			return
		}
	}
	if !arm() {
		return
	}
	for i := 0; i < 100000; i++ {
		if h.s.PassThrough() {
			return
		}
		h.s.Gate(actor, "drain")
		err := h.read(sd, actor, sl, 4096)
		if err == nil {
			continue
		}
		if errors.Is(err, os.ErrDeadlineExceeded) && !(h.ab.idle() && h.ba.idle()) {
			// Data is still in transit on a slow carrier: keep draining.
			if !arm() {
				return
			}
			continue
		}
		if errors.Is(err, os.ErrDeadlineExceeded) || err == io.EOF {
			h.mu.Lock()
			sl.drained = true
			h.mu.Unlock()
		}
		return
	}
}

func (h *harness) yield(site string) {
	label := h.s.ActorLabel()
	if label == "" {
		return
	}
	if site == "multiplexing.write.block" {
		h.mu.Lock()
		op := h.inflight[label]
		fire := false
		var sl *slot
		if op != nil && op.sl != nil && op.sl.halfCloseAtBlock > 0 {
			sl = op.sl
			sl.halfCloseAtBlock--
			fire = sl.halfCloseAtBlock == 0 && !sl.cwInvoked && !sl.closeInvoked
			if fire {
				sl.cwInvoked = true
			}
		}
		h.mu.Unlock()
		if fire {
			// A second goroutine calls CloseWrite right now, while this writer
			// stands between two blocks; it is given the processor until it
			// blocks (on the writer's deadline token), then the writer goes on.
			// All inside one scheduler step: the closer ends when the Write does.
			h.s.Count("probe.halfclose_between_blocks", 1)
			go func() {
				sl.st.CloseWrite()
				h.mu.Lock()
				sl.cwReturned = true
				h.mu.Unlock()
			}()
			for i := 0; i < 30; i++ {
				runtime.Gosched()
			}
		}
	}
	for i, ys := range yieldSites {
		if ys == site && h.s.Plan.C("yields")&(1<<i) != 0 {
			h.s.Count("probe.yield."+site, 1)
			h.mu.Lock()
			op := h.inflight[label]
			if op != nil {
				op.atYield = true
			}
			h.mu.Unlock()
			h.s.Gate(label, "yield:"+site)
			h.mu.Lock()
			if op != nil {
				op.atYield = false
			}
			h.mu.Unlock()
			return
		}
	}
}

func execMux(t *testing.T, plan *simkit.Plan) *simkit.Result {
	var nontrivial bool
	var fp string
	res := simkit.Run(t, plan, simkit.Options{MaxSteps: 30000, Horizon: 90 * time.Second}, func(s *simkit.Sim) {
		h := &harness{s: s, bySid: map[uint64]map[string]*slot{}, inflight: map[string]*opState{}, prop: plan.Property}
		c := plan.Cfg
		h.ab = newLink(s, "A>B", int(c["linkcap"]), int(c["short"]))
		h.ba = newLink(s, "B>A", int(c["linkcap"]), int(c["short"]))
		for _, f := range s.FaultsOfKind("link_cut") {
			if f.Key == "A>B" {
				h.ab.cutAt = int(f.Arg)
			} else {
				h.ba.cutAt = int(f.Arg)
			}
		}
		h.mon = newMonitor(s)
		h.ab.tap = func(p []byte) { h.mon.sent("A", p) }
		h.ba.tap = func(p []byte) { h.mon.sent("B", p) }
		ca := &carrier{in: h.ba, out: h.ab}
		cb := &carrier{in: h.ab, out: h.ba}
		mk := func(window int64) *multiplexing.Configuration {
			return &multiplexing.Configuration{
				StreamReceiveWindow:             int(window),
				WriteBufferCount:                int(c["wbuf"]),
				AcceptBacklog:                   int(c["backlog"]),
				HeartbeatTransmitInterval:       time.Duration(c["heartbeat_ms"]) * time.Millisecond,
				MaximumHeartbeatReceiveInterval: time.Duration(c["hbrecv_ms"]) * time.Millisecond,
			}
		}
		verif.YieldHook = h.yield
		defer func() { verif.YieldHook = nil }()
		h.A = &side{name: "A", slots: map[int]*slot{}, backlog: int(c["backlog"]), window: int(c["window"])}
		h.B = &side{name: "B", slots: map[int]*slot{}, backlog: int(c["backlog"]), window: int(c["window_b"])}
		h.A.peer, h.B.peer = h.B, h.A
		h.A.mux = multiplexing.Multiplex(ca, false, mk(c["window"]))
		h.B.mux = multiplexing.Multiplex(cb, true, mk(c["window_b"]))
		delay := time.Duration(c["delay_us"]) * time.Microsecond
		s.Go("link.A>B", func() { h.ab.pump(int(c["frag"]), delay) })
		s.Go("link.B>A", func() { h.ba.pump(int(c["frag"]), delay) })

		// Client actors.
		perActor := map[string][]simkit.Op{}
		var names []string
		for _, op := range plan.Ops {
			if _, ok := perActor[op.Actor]; !ok {
				names = append(names, op.Actor)
			}
			perActor[op.Actor] = append(perActor[op.Actor], op)
		}
		sort.Strings(names)
		for _, name := range names {
			name := name
			sd := h.A
			if strings.HasPrefix(name, "B") {
				sd = h.B
			}
			ops := perActor[name]
			h.mu.Lock()
			h.clients++
			h.mu.Unlock()
			s.Go(name, func() {
				defer func() { h.mu.Lock(); h.clients--; h.mu.Unlock() }()
				for _, op := range ops {
					h.mu.Lock()
					stop := h.stop
					h.mu.Unlock()
					if stop || s.PassThrough() {
						return
					}
					s.Gate(name, op.Kind)
					h.exec(sd, name, op)
				}
			})
		}
		s.Invariant = h.invariant
		clientsDone := func() bool { h.mu.Lock(); defer h.mu.Unlock(); return h.clients == 0 }
		stop := s.Loop(clientsDone)
		s.Logf("sim", "phase 1 ended: %v at step %d", stop, s.Step())

		// Settling phase: clients stop issuing operations, every open stream
		// is drained by a per-side drainer, then completeness is checked.
		h.mu.Lock()
		h.stop = true
		h.mu.Unlock()
		s.StopFaults() // no stalls while the streams are drained
		s.SetBudget(60000, 120*time.Second)
		for _, sd := range []*side{h.A, h.B} {
			sd := sd
			name := sd.name + ".drain"
			h.mu.Lock()
			h.clients++
			var idxs []int
			for k := range sd.slots {
				idxs = append(idxs, k)
			}
			h.mu.Unlock()
			sort.Ints(idxs)
			s.Go(name, func() {
				defer func() { h.mu.Lock(); h.clients--; h.mu.Unlock() }()
				for _, k := range idxs {
					h.mu.Lock()
					sl := sd.slots[k]
					closed := sl.closeInvoked
					h.mu.Unlock()
					if !closed {
						h.drain(sd, name, sl)
					}
				}
			})
		}
		stop = s.Loop(clientsDone)
		s.Logf("sim", "settling ended: %v at step %d", stop, s.Step())
		if stop != simkit.StopCond {
			h.reportStuck(stop)
		}
		// Let everything still queued (window increments for the last reads)
		// cross the carrier before the books are closed.
		s.SetBudget(20000, 30*time.Second)
		flushed := s.Loop(func() bool { return h.ab.idle() && h.ba.idle() }) == simkit.StopCond
		h.finalChecks(flushed)
		nontrivial = s.Counter("probe.stream_established") >= 2 && s.Counter("probe.link_fragments") > 10
		fp = simkit.Digest(fmt.Sprint(s.Counter("probe.stream_established"), s.Counter("probe.eof"), s.Counter("probe.open_rejected")))
		s.Finish()
		h.A.mux.Close()
		h.B.mux.Close()
		s.WaitActors(time.Minute)
	})
	res.NonTrivial = nontrivial
	res.Fingerprint = simkit.Digest(res.JournalHash, fp)
	for _, l := range res.JournalTail {
		_ = l
	}
	return res
}

// teardownExpected reports whether the plan itself closed a multiplexer or a
// carrier fault fired (after which closure of both sides is legitimate).
func (h *harness) teardownExpected() bool {
	h.mu.Lock()
	defer h.mu.Unlock()
	return h.A.closeInvoked || h.B.closeInvoked || h.ab.isCut() || h.ba.isCut()
}

func (l *link) isCut() bool {
	l.mu.Lock()
	defer l.mu.Unlock()
	return l.cut
}

func isClosed(c <-chan struct{}) bool {
	select {
	case <-c:
		return true
	default:
		return false
	}
}

func sanitizeErr(e string) string {
	// Strip numbers so the class is stable across runs.
	var b strings.Builder
	for _, r := range e {
		if r >= '0' && r <= '9' {
			continue
		}
		b.WriteRune(r)
	}
	return b.String()
}

// invariant is evaluated at every quiescent point.
func (h *harness) invariant() {
	s := h.s
	now := time.Now()
	expected := h.teardownExpected()
	aClosed, bClosed := isClosed(h.A.mux.Closed()), isClosed(h.B.mux.Closed())
	// C24: conforming peers never tear each other down.
	if !expected && (aClosed || bClosed) {
		ea, eb := h.A.mux.InternalError(), h.B.mux.InternalError()
		cls := "closed-without-error"
		for _, e := range []error{ea, eb} {
			if e != nil && !strings.Contains(e.Error(), "EOF") && !strings.Contains(e.Error(), "closed pipe") {
				cls = sanitizeErr(e.Error())
			}
		}
		s.Violate("C24", "teardown", cls, "multiplexers closed although neither side was closed by the workload and the carrier did not fail: A error=%v, B error=%v", ea, eb)
	}
	linkIdle := h.ab.idle() && h.ba.idle()
	// C25 (no head-of-line blocking, nothing left pending): at a quiescent
	// point every goroutine is blocked, so a multiplexer's reader is either
	// waiting for carrier data or stuck somewhere else. Complete frames that
	// have arrived and are not consumed mean it is stuck - it waits for
	// something other than its carrier - and everything behind those frames
	// (data of every stream, rejections, window updates) is held up with it.
	if !expected && !aClosed && !bClosed {
		for _, l := range []struct {
			link   *link
			reader string
		}{{h.ab, "B"}, {h.ba, "A"}} {
			if n := l.link.visible(); n > 0 {
				s.Violate("C25", "reader-stalled", "carrier", "%d bytes of complete frames have arrived for multiplexer %s and nothing runs, yet its reader does not consume them: it is blocked on something other than its carrier", n, l.reader)
			}
		}
	}
	h.mu.Lock()
	defer h.mu.Unlock()
	pendingOpens := map[string]int{}
	acceptsInFlight := map[string]int{}
	// An operation parked by the simulator at a yield inside the real code may
	// hold the stream's deadline token; operations on the same stream that
	// wait for that token are blocked by the simulator, not by the system.
	yieldStreams := map[*slot]bool{}
	for _, op := range h.inflight {
		if op.atYield && op.sl != nil {
			yieldStreams[op.sl] = true
		}
		if op.atYield {
			// A parked operation may hold a write buffer, so control messages
			// may legitimately still be queued: no idle-carrier conclusions.
			linkIdle = false
		}
	}
	for _, op := range h.inflight {
		sd := op.sd
		if op.sl != nil && yieldStreams[op.sl] {
			continue
		}
		if op.kind == "accept" {
			acceptsInFlight[sd.name]++
		}
		if op.atYield {
			// Parked by the simulator, not blocked by the system.
			continue
		}
		sideClosed := (sd == h.A && aClosed) || (sd == h.B && bClosed)
		stuck := func(rule, format string, args ...any) {
			s.Violate("C25", rule, op.kind, "%s blocked in %s: "+format, append([]any{op.actor, op.kind}, args...)...)
		}
		// A closed multiplexer (for whatever reason) must release everybody.
		if sideClosed {
			stuck("blocked-after-mux-closed", "multiplexer %s is closed", sd.name)
			continue
		}
		switch op.kind {
		case "open", "accept":
			if now.After(op.deadline) {
				stuck("blocked-after-context-deadline", "context expired at %v", op.deadline.Sub(now))
			}
			if op.kind == "open" {
				pendingOpens[sd.name]++
			}
		case "read":
			sl := op.sl
			if sl.closeReturned {
				stuck("blocked-after-local-close", "stream %d was closed locally", sl.sid)
			} else if !sl.rdl.IsZero() && now.After(sl.rdl) {
				stuck("blocked-after-deadline", "stream %d read deadline passed %v ago", sl.sid, now.Sub(sl.rdl))
			} else if linkIdle {
				if peer := h.peerSlot(sl); peer != nil {
					if (peer.closeReturned || peer.cwReturned) && op.size > 0 {
						stuck("blocked-after-peer-close", "stream %d: peer closed (close=%v closewrite=%v) and the carrier is idle", sl.sid, peer.closeReturned, peer.cwReturned)
					} else if peer.written > sl.readPos && op.size > 0 {
						stuck("blocked-with-data", "stream %d: %d acknowledged bytes unread and the carrier is idle", sl.sid, peer.written-sl.readPos)
					}
				}
			}
		case "write":
			sl := op.sl
			if sl.closeReturned {
				stuck("blocked-after-local-close", "stream %d was closed locally", sl.sid)
			} else if sl.cwReturned {
				stuck("blocked-after-local-closewrite", "stream %d was closed for writing locally", sl.sid)
			} else if !sl.wdl.IsZero() && now.After(sl.wdl) {
				stuck("blocked-after-deadline", "stream %d write deadline passed %v ago", sl.sid, now.Sub(sl.wdl))
			} else if linkIdle {
				if peer := h.peerSlot(sl); peer != nil && peer.closeReturned {
					stuck("blocked-after-peer-close", "stream %d: peer closed and the carrier is idle", sl.sid)
				} else if credit, known := h.mon.credit(sd.name, sl.sid); known && credit > 0 && op.size > 0 {
					stuck("blocked-with-window", "stream %d: %d bytes of send window available and the carrier is idle (head-of-line blocking)", sl.sid, credit)
				}
			}
		case "close", "closewrite", "rdeadline", "wdeadline", "muxclose":
			if linkIdle {
				// These never wait for the peer; at an idle quiescent point
				// they must have returned unless a concurrent operation holds
				// the stream's deadline token, which itself must return.
			}
		}
	}
	if linkIdle {
		for name, n := range pendingOpens {
			peer := h.B
			if name == "B" {
				peer = h.A
			}
			// An accept in flight may already have taken a stream out of the
			// backlog without having answered yet.
			if n > peer.backlog+acceptsInFlight[peer.name] {
				s.Violate("C25", "open-not-rejected", "open", "%d opens from side %s are pending at an idle quiescent point but the peer's accept backlog is %d: the excess must be rejected, not left pending", n, name, peer.backlog)
			}
		}
	}
}

// reportStuck is called when a phase ends by budget or horizon: every
// operation still in flight must be justified by the invariant rules; the
// remaining ones are reported for visibility only.
func (h *harness) reportStuck(stop simkit.Stop) {
	h.mu.Lock()
	defer h.mu.Unlock()
	for _, op := range h.inflight {
		h.s.Logf("sim", "still in flight at %v: %s %s", stop, op.actor, op.kind)
		h.s.Count("probe.inflight_at_end", 1)
	}
}

// finalChecks verifies completeness: every acknowledged byte reached a reader
// that drained its side, unless a teardown or a local close explains the gap.
func (h *harness) finalChecks(flushed bool) {
	s := h.s
	teardown := h.teardownExpected() || isClosed(h.A.mux.Closed()) || isClosed(h.B.mux.Closed())
	h.mu.Lock()
	defer h.mu.Unlock()
	var sids []uint64
	for id := range h.bySid {
		sids = append(sids, id)
	}
	sort.Slice(sids, func(i, j int) bool { return sids[i] < sids[j] })
	for _, id := range sids {
		pair := h.bySid[id]
		for _, rn := range []string{"A", "B"} {
			rd := pair[rn]
			wn := "B"
			if rn == "B" {
				wn = "A"
			}
			wr := pair[wn]
			if rd == nil || wr == nil {
				continue
			}
			if rd.readPos > max(wr.written, wr.offered) {
				s.Violate("C23", "read-beyond-written", "final", "stream %d: side %s read %d bytes, peer offered %d", id, rn, rd.readPos, max(wr.written, wr.offered))
			}
			writing := false
			for _, op := range h.inflight {
				if op.kind == "write" && op.sl == wr {
					writing = true
				}
			}
			if !teardown && !writing && rd.drained && !rd.closeInvoked && rd.readPos != wr.written {
				s.Violate("C23", "acknowledged-bytes-lost", "final", "stream %d: side %s drained its stream and read %d bytes, but the peer's writes were acknowledged for %d bytes", id, rn, rd.readPos, wr.written)
			}
			if rd.drained && !teardown {
				s.Count("probe.stream_direction_complete", 1)
			}
			// Conservation of flow-control credit: the reader consumed every
			// byte that was delivered, nothing is in flight in either direction,
			// nobody closed the stream: every byte of window the writer spent
			// has been handed back, so it holds exactly the window it was
			// granted when the stream was established (a smaller one would
			// throttle or stall it for good; a larger one overruns the reader).
			if flushed && !teardown && !writing && rd.drained && !rd.closeInvoked && !wr.closeInvoked && rd.readPos == wr.written && len(h.inflight) == 0 {
				if credit, initial, known := h.mon.window(wn, id); known {
					s.Count("probe.window_conservation_checked", 1)
					if credit < initial {
						// Lost credit is a hang in waiting: once it adds up to
						// the whole window the writer blocks for good although
						// the reader consumes everything (C25).
						s.Violate("C25", "send-window-lost", "final", "stream %d: side %s has read all %d bytes side %s wrote and the carrier is idle, yet %s's send window is %d bytes instead of %d: flow-control credit was lost, and a writer whose credit is gone never unblocks", id, rn, rd.readPos, wn, wn, credit, initial)
					}
					if credit != initial {
						s.Violate("C23", "window-credit-not-conserved", "final", "stream %d: side %s has read all %d bytes side %s wrote and the carrier is idle, yet %s holds a send window of %d bytes instead of the %d it was granted (flow-control credit lost or invented)", id, rn, rd.readPos, wn, wn, credit, initial)
					}
				}
			}
		}
	}
}
